import itertools


def cases(tier, seed):
    hi = 4 if tier == "quick" else 5
    for m, n in itertools.product(range(1, hi + 2), range(1, hi + 1)):
        for mode in ("full", "valid"):
            for st in (None, [2], [3]):
                yield dict(fn="conv.check", args=dict(m=[m], n=[n], mode=mode, strides=st, seed=seed, complex=(m + n) % 2 == 0))
            yield dict(fn="conv.check", args=dict(m=[m], n=[n], mode=mode, strides=[2], mc=True, batch=[2], seed=seed))
    for m, n in itertools.product(itertools.product((1, 3, 4), repeat=2), itertools.product((1, 2, 3), repeat=2)):
        for mode in ("full", "valid"):
            yield dict(fn="conv.check", args=dict(m=list(m), n=list(n), mode=mode, strides=None if sum(m) % 2 else [2, 1], seed=seed))
    yield dict(fn="conv.check", args=dict(m=[4, 3], n=[2, 2], mode="valid", strides=[1, 2], mc=True, batch=[2], ci=2, co=2, seed=seed))
    yield dict(fn="conv.check", args=dict(m=[3, 2, 3], n=[2, 2, 1], mode="full", strides=[1, 2, 1], seed=seed))


def groups(tier, seed):
    yield dict(name="convolve vs the strided multi-channel definition; both adjoints by the dot test; inadmissible shapes rejected",
               bound="1-D lengths 1..5 x 1..4, strides 1..3; 2-D lengths {1,3,4}^2 x {1,2,3}^2; multi-channel with a batch axis; one 3-D case", cases=cases(tier, seed))
    yield dict(name="scipy.signal convolve / correlate vs the assumed contract of contracts/C08.py (ScipyC)",
               bound="1-D lengths 1..5 x 1..5, 2-D shapes {1,2,4}^2 x {1,3}^2, one 3-D pair, modes full / valid (incl. second operand longer, mixed axes rejected), complex values",
               cases=scipy_cases(tier, seed))


def scipy_cases(tier, seed):
    for m, n in itertools.product(range(1, 6), repeat=2):
        for mode in ("full", "valid"):
            yield dict(fn="scipy.contract", args=dict(shape_a=[m], shape_b=[n], mode=mode, seed=seed))
    for sa, sb in itertools.product(itertools.product((1, 2, 4), repeat=2), itertools.product((1, 3), repeat=2)):
        for mode in ("full", "valid"):
            yield dict(fn="scipy.contract", args=dict(shape_a=list(sa), shape_b=list(sb), mode=mode, seed=seed))
    yield dict(fn="scipy.contract", args=dict(shape_a=[2, 3, 2], shape_b=[3, 3, 4], mode="valid", seed=seed))
    yield dict(fn="scipy.contract", args=dict(shape_a=[1, 2, 3, 4], shape_b=[1, 1, 2, 2], mode="full", seed=seed))
