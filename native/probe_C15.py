CLASSES = ["PowerMethod", "GradientMethod", "GradientMethodAcc", "ConjugateGradient", "PrimalDualHybridGradient", "AltMin", "ADMM",
           "AugmentedLagrangianMethod", "NewtonsMethod", "GerchbergSaxton"]


def cases(tier, seed):
    for c in CLASSES:
        for mi in range(0, 5 if tier == "quick" else 9):
            for pat in ("canonical", "double_done"):
                yield dict(fn="alg.loop", args=dict(cls=c, max_iter=mi, pattern=pat, seed=seed))
    for n in (1, 2, 5):
        for cplx in (False, True):
            yield dict(fn="alg.power", args=dict(n=n, complex=cplx, seed=seed + n))
    yield dict(fn="alg.earlystop", args=dict(scenario="gm_plain_box"))
    yield dict(fn="alg.earlystop", args=dict(scenario="cg_exact"))
    yield dict(fn="alg.earlystop", args=dict(scenario="gm_accelerated_box"))
    yield dict(fn="alg.earlystop", args=dict(scenario="pdhg_l1_zero_init", sigma=0.01, further_updates=2000))
    yield dict(fn="alg.gs_counter", args=dict(max_iter=6))
    yield dict(fn="app.run_loop", args=dict())


def groups(tier, seed):
    yield dict(name="canonical loop / power method / early-stop scenarios", bound="every Alg subclass except SDMM, max_iter 0..4 (8 thorough), "
               "done() called once or twice per round, up to max_iter+3 rounds; power method n in {1,2,5}", cases=cases(tier, seed))
