import itertools


def cases(tier, seed):
    for solver in (None, "ConjugateGradient", "GradientMethod", "PrimalDualHybridGradient", "ADMM"):
        for g, G, lam, z in itertools.product((None, "l1", "l2", "box"), (None, "dense", "fd"), (0.0, 0.3), (False, True)):
            if z and lam == 0:
                continue
            eff = solver or ("ConjugateGradient" if g is None else ("GradientMethod" if G is None else "PrimalDualHybridGradient"))
            if (eff == "ConjugateGradient" and g) or (eff == "GradientMethod" and G):
                continue
            if G is not None and g is None:
                continue              # G without g: the documented objective has no g(Gx) term
            if g == "box" and G is not None:
                continue
            for cplx in ((False, True) if tier != "quick" else (False,)):
                yield dict(fn="app.lls", args=dict(solver=solver, g=g, G=G, lam=lam, z=z, complex=cplx and g != "box", seed=seed, x0=(seed % 2 == 0)))
    for g, G, rho in itertools.product(("l1", "l2"), (None, "fd"), (4.0, 0.25)):
        yield dict(fn="app.lls", args=dict(solver="ADMM", g=g, G=G, lam=0.3, z=True, rho=rho, seed=seed))      # user-supplied penalty parameter
    for A in ("identity", "reshape"):
        for solver in ("ConjugateGradient", "ADMM", "GradientMethod", "PrimalDualHybridGradient"):
            yield dict(fn="app.lls", args=dict(A=A, solver=solver, g=("l1" if solver != "ConjugateGradient" else None), lam=0.3, z=True, seed=seed))


def groups(tier, seed):
    yield dict(name="LinearLeastSquares: objective at the returned x vs a reference optimum; y, z untouched",
               bound="6x4 dense A (and A = Identity / Reshape views), g in {0,l1,l2,box}, G in {none,dense 5x4,finite difference}, lamda in {0,0.3}, z given or not, "
                     "every applicable solver; ADMM also with rho in {4, 0.25}", cases=cases(tier, seed))
