import itertools


def cases(tier, seed):
    shapes = [(5,), (3, 4)] + ([(2, 3, 2)] if tier != "quick" else [])
    for kind in ("L1Reg", "L2Reg", "L2Reg+l1", "L2Proj", "LInfProj", "L1Proj", "Box", "Conj(L1)", "Stack", "Unitary(FFT,L1)"):
        for shape, cplx in itertools.product(shapes, (False, True)):
            for special in (None, "zeros", "on-threshold", "feasible", "boundary"):
                for bias in ((False, True) if kind in ("L2Reg", "L2Reg+l1", "L2Proj", "LInfProj") else (False,)):
                    for alpha in (0.7, 3.0):
                        yield dict(fn="prox.check", args=dict(kind=kind, shape=shape, complex=cplx, special=special, bias=bias, alpha=alpha, seed=seed))
    for shape in ((5,), (3, 4)):
        yield dict(fn="prox.check", args=dict(kind="Box", shape=shape, complex=False, int_input=True, alpha=0.7, seed=seed))
    for shape in ((3, 4),):
        for axes in ((0,), (-1,), (0, 1)):
            yield dict(fn="prox.check", args=dict(kind="L2Proj", shape=shape, complex=True, axes=axes, bias=True, seed=seed))
    for n, cplx in itertools.product((2, 4, 5), (False, True)):
        yield dict(fn="prox.check", args=dict(kind="PsdProj", shape=(n, n), complex=cplx, seed=seed))
        yield dict(fn="prox.check", args=dict(kind="PsdProj", shape=(n, n), complex=cplx, seed=seed, eigs=[2.0, -1.0, 0.5, -0.25, 3.0]))


def groups(tier, seed):
    yield dict(name="prox objects: returned point is not beaten by 200 random (feasible) candidates; projections idempotent; shapes",
               bound="shapes (5,), (3,4)(+(2,3,2)), real/complex, alpha in {0.7,3}, inputs random/zero/on-threshold/feasible/boundary, with/without bias; BoxConstraint also on an integer-dtype input; "
                     "PsdProj with repeated and distinct eigenvalues n in {2,4,5}", cases=cases(tier, seed))
