"""Concrete side of the contracts: reference implementations written from the property statements as explicit
index loops (numpy only for storage).  Used by the replay harness and by the bounded conformance probes."""
import itertools
import numpy as np


def rng_complex(shape, seed):
    r = np.random.RandomState(seed)
    return (r.standard_normal(shape) + 1j * r.standard_normal(shape)).astype(np.complex128)


def idx_iter(shape):
    return itertools.product(*[range(int(s)) for s in shape])


def spec_resize(x, oshape, ishift=None, oshift=None):
    oshape = [int(o) for o in oshape]
    r = max(x.ndim, len(oshape))
    ish = [1] * (r - x.ndim) + list(x.shape)
    osh = [1] * (r - len(oshape)) + oshape
    x1 = x.reshape(ish)
    if ishift is None and oshift is None:
        off = [n // 2 - m // 2 for n, m in zip(ish, osh)]
        lo = [0] * r
    else:
        if ishift is None:
            ishift = [max(n // 2 - m // 2, 0) for n, m in zip(ish, osh)]
        if oshift is None:
            oshift = [max(m // 2 - n // 2, 0) for n, m in zip(ish, osh)]
        off = [si - so for si, so in zip(ishift, oshift)]
        lo = list(oshift)
    out = np.zeros(osh, dtype=x.dtype)
    for k in idx_iter(osh):
        s = tuple(kd + o for kd, o in zip(k, off))
        if all(0 <= sd < n for sd, n in zip(s, ish)) and all(kd >= l for kd, l in zip(k, lo)):
            out[k] = x1[s]
    return out.reshape(oshape)


def spec_flip(x, axes=None):
    n = x.ndim
    axes = range(n) if axes is None else [a % n for a in axes]
    out = np.zeros_like(x)
    for k in idx_iter(x.shape):
        out[k] = x[tuple(x.shape[d] - 1 - k[d] if d in axes else k[d] for d in range(n))]
    return out


def spec_circshift(x, shifts, axes=None):
    n = x.ndim
    axes = list(range(n)) if axes is None else list(axes)
    out = x
    for a, s in zip(axes, shifts):
        a %= n
        nxt = np.zeros_like(out)
        for k in idx_iter(out.shape):
            kk = list(k)
            kk[a] = (k[a] - s) % out.shape[a]
            nxt[k] = out[tuple(kk)]
        out = nxt
    return out


def spec_downsample(x, factors, shift=None):
    nf = len(factors)
    shift = [0] * nf if shift is None else list(shift)
    shape = [-(-(n - s) // f) for n, s, f in zip(x.shape, shift, factors)] + list(x.shape[nf:])
    out = np.zeros(shape, dtype=x.dtype)
    for k in idx_iter(shape):
        out[k] = x[tuple(shift[d] + k[d] * factors[d] if d < nf else k[d] for d in range(x.ndim))]
    return out


def spec_upsample(x, oshape, factors, shift=None):
    nf = len(factors)
    shift = [0] * nf if shift is None else list(shift)
    out = np.zeros(oshape, dtype=x.dtype)
    for j in idx_iter(x.shape):
        out[tuple(shift[d] + j[d] * factors[d] if d < nf else j[d] for d in range(x.ndim))] = x[j]
    return out


def spec_array_to_blocks(x, blk_shape, blk_strides):
    D = len(blk_shape)
    N = x.shape[-D:]
    nb = [(n - b + s) // s for n, b, s in zip(N, blk_shape, blk_strides)]
    batch = list(x.shape[:-D])
    out = np.zeros(batch + nb + list(blk_shape), dtype=x.dtype)
    for bt in idx_iter(batch):
        for n in idx_iter(nb):
            for b in idx_iter(blk_shape):
                src = tuple(n[d] * blk_strides[d] + b[d] for d in range(D))
                out[bt + n + b] = x[bt + src]
    return out


def spec_blocks_to_array(x, oshape, blk_shape, blk_strides):
    D = len(blk_shape)
    nb = x.shape[-2 * D:-D]
    batch = list(oshape[:-D])
    out = np.zeros(oshape, dtype=x.dtype)
    for bt in idx_iter(batch):
        for n in idx_iter(nb):
            for b in idx_iter(blk_shape):
                dst = tuple(n[d] * blk_strides[d] + b[d] for d in range(D))
                if all(dst[d] < oshape[len(batch) + d] for d in range(D)):
                    out[bt + dst] += x[bt + n + b]
    return out


def close(a, b, tol=1e-9):
    a, b = np.asarray(a), np.asarray(b)
    if a.shape != b.shape:
        return False
    if a.size == 0:
        return True
    return bool(np.max(np.abs(a - b)) <= tol * max(1.0, float(np.max(np.abs(b)))))
