import itertools


def groups(tier, seed):
    import probe_linops
    yield dict(name="C03 clauses on every operator variant (run-time, incl. dense matrix expression of structural classes)", bound=probe_linops.BOUND,
               cases=probe_linops.cases("C03", tier, seed))

    def stack():
        for which in ("_hstack_params", "_vstack_params"):
            for rank in (1, 2, 3):
                for axis in range(-rank, rank):
                    for shapes in ([[2] * rank, [3] * rank], [[2] * rank, [2] * rank, [2] * rank], [[2] * rank]):
                        yield dict(fn="linop.stack_params", args=dict(which=which, shapes=shapes, axis=axis))
                        s2 = [list(s) for s in shapes]
                        s2[-1][axis % rank] += 2
                        yield dict(fn="linop.stack_params", args=dict(which=which, shapes=s2, axis=axis))
    yield dict(name="_hstack_params/_vstack_params", bound="rank 1..3, every axis in [-rank, rank), 1..3 operands, compatible and incompatible", cases=stack())

    def rej():
        for kind in ("compose", "add", "apply", "add-rank-o", "add-rank-i", "hstack-rank", "vstack-rank", "compose-rank"):
            for a, b, c, d in itertools.product((2, 3), repeat=4):
                yield dict(fn="linop.reject", args=dict(kind=kind, a=a, b=b, c=c, d=d))
    yield dict(name="rejection of operands that do not fit", bound="extents in {2,3}", cases=rej())
