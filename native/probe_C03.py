def groups(tier, seed):
    import probe_linops
    skip = ("FFT_never",)
    yield dict(name="C03 clauses on every operator variant (run-time)", bound=probe_linops.BOUND, cases=probe_linops.cases("C03", tier, seed))
