import itertools


def cases(tier, seed):
    import pywt
    T = tier != "quick"
    names = [w for fam in ("haar", "db", "sym", "coif") for w in pywt.wavelist(fam)]
    if not T:
        # every family, low/medium/high order
        names = [w for w in names if w in ("haar", "db1", "db2", "db4", "db7", "db20", "sym2", "sym5", "sym13", "coif1", "coif3", "coif9")]
    for w in names:
        L = pywt.Wavelet(w).dec_len
        shapes = [[1], [2], [5], [8], [9], [L - 1], [L + 1], [3, 4], [5, 6], [8, 7], [2, 3, 4], [5, 4, 3]]
        if T:
            shapes += [[3], [16], [2 * L + 1], [17, 5], [7, 2, 9]]
        for shape in shapes:
            nd = len(shape)
            axsets = [None] + [list(ax) for r in range(1, nd + 1) for ax in itertools.combinations(range(nd), r)] + ([[-1]] if nd > 1 else [])
            if nd >= 2:
                axsets += [[1, 0], [-1, -2]] + ([[2, 0]] if nd == 3 else [])        # axes given in a non-canonical order
            for axes in axsets:
                for level in (None, 1, 2, 3):
                    yield dict(fn="wavelet.check", args=dict(shape=shape, wave=w, axes=axes, level=level, seed=seed, complex=(len(shape) + (level or 0)) % 2 == 0))


def groups(tier, seed):
    yield dict(name="fwt/iwt/Wavelet on the installed PyWavelets: round trip, norm, adjoint, advertised shape",
               bound="orthogonal wavelets of the installed PyWavelets (quick: 12 across haar/db/sym/coif; thorough: all 75), 1-3-D shapes incl. odd, length 1 and "
                     "shorter than the filter, every axes subset, level None/1/2/3, real and complex", cases=cases(tier, seed))
