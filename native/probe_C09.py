import itertools


def shapes(rank, lo, hi):
    return itertools.product(range(lo, hi + 1), repeat=rank)


def groups(tier, seed):
    hi = 4 if tier == "quick" else 6
    def resize_cases():
        for ri, ro in [(1, 1), (2, 2), (1, 2), (2, 1)] + ([(3, 3)] if tier != "quick" else []):
            h = hi if max(ri, ro) < 3 else 3
            for ish in shapes(ri, 1, h):
                for osh in shapes(ro, 1, h):
                    yield dict(fn="util.resize", seed=seed, args=dict(ishape=ish, oshape=osh))
        for n in range(1, hi + 2):
            for m in range(1, hi + 2):
                for si in range(n):
                    for so in range(m):
                        yield dict(fn="util.resize", seed=seed, args=dict(ishape=[n], oshape=[m], ishift=[si], oshift=[so]))
    yield dict(name="util.resize", bound="ranks (1,1),(2,2),(1,2),(2,1) extents 1..%d; 1-D explicit shifts all" % hi, cases=resize_cases())

    def perm_cases():
        for rank in (1, 2, 3):
            h = hi if rank < 3 else 3
            for sh in shapes(rank, 1, h):
                axsets = [None] + [c for k in range(1, rank + 1) for c in itertools.combinations(range(-rank, rank), k)]
                for ax in axsets:
                    yield dict(fn="util.flip", seed=seed, args=dict(shape=sh, axes=ax))
                    ns = rank if ax is None else len(ax)
                    for shifts in itertools.product([-3, 0, 1, 5], repeat=ns) if rank < 3 else [tuple([1] * ns), tuple([-2] * ns)]:
                        yield dict(fn="util.circshift", seed=seed, args=dict(shape=sh, axes=ax, shifts=shifts))
    yield dict(name="util.flip/circshift", bound="rank 1..3, extents 1..%d, all axes subsets incl. negative and repeated" % hi, cases=perm_cases())

    def samp_cases():
        for rank in (1, 2):
            for sh in shapes(rank, 1, hi + 2):
                for nf in range(1, rank + 1):
                    for f in itertools.product([1, 2, 3], repeat=nf):
                        for s in itertools.product([0, 1, 2], repeat=nf):
                            if any(s[d] >= sh[d] for d in range(nf)):
                                continue
                            yield dict(fn="util.downsample", seed=seed, args=dict(shape=sh, factors=f, shift=s))
                            ish = [-(-(sh[d] - s[d]) // f[d]) if d < nf else sh[d] for d in range(rank)]
                            yield dict(fn="util.upsample", seed=seed, args=dict(ishape=ish, oshape=sh, factors=f, shift=s))
    yield dict(name="util.downsample/upsample", bound="rank 1..2, extents 1..%d, factors 1..3, shifts 0..2" % (hi + 2), cases=samp_cases())

    def blk_cases():
        for D in (1, 2) if tier == "quick" else (1, 2, 3):
            h = {1: 8, 2: 5, 3: 3}[D]
            for N in shapes(D, 1, h):
                for B in itertools.product(range(1, 4), repeat=D):
                    if any(B[d] > N[d] for d in range(D)):
                        continue
                    for St in itertools.product(range(1, 4), repeat=D):
                        for bt in ([], [2]):
                            nb = [(N[d] - B[d] + St[d]) // St[d] for d in range(D)]
                            yield dict(fn="block.array_to_blocks", seed=seed, args=dict(shape=list(bt) + list(N), blk_shape=B, blk_strides=St))
                            yield dict(fn="block.blocks_to_array", seed=seed, args=dict(shape=list(bt) + nb + list(B), oshape=list(bt) + list(N), blk_shape=B, blk_strides=St))
    yield dict(name="block.array_to_blocks/blocks_to_array", bound="D 1..2 (3 thorough), extents up to 8/5/3, block and stride 1..3, 0..1 batch axes", cases=blk_cases())
