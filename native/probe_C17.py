def cases(tier, seed):
    T = tier != "quick"
    base = [dict(kind="random", shape=[12, 12], C=4, calib_width=8, kernel_width=3),
            dict(kind="random", shape=[10, 9], C=2, calib_width=8, kernel_width=3, crop=0.5),
            dict(kind="random", shape=[9, 12], C=3, calib_width=6, kernel_width=2, thresh=0.1, crop=0.9),
            dict(kind="smooth", shape=[16, 16], C=8, calib_width=16, kernel_width=6),
            dict(kind="smooth", shape=[16, 16], C=4, calib_width=12, kernel_width=4, thresh=0.05, crop=0.8),
            dict(kind="smooth", shape=[12, 14], C=2, calib_width=10, kernel_width=4, compare=False),
            dict(kind="smooth", shape=[16, 16], C=8, image="phantom", calib_width=16, kernel_width=6, compare=False),
            dict(kind="smooth", shape=[8, 8, 8], C=4, calib_width=8, kernel_width=3),
            dict(kind="random", shape=[6, 7, 5], C=3, calib_width=5, kernel_width=2),
            dict(kind="random", shape=[12, 12], C=4, calib_width=8, kernel_width=3, output_eigenvalue=False),
            dict(kind="random", shape=[12, 12], C=5, calib_width=8, kernel_width=3, max_iter=30)]
    if T:
        base += [dict(kind="smooth", shape=[24, 24], C=8, calib_width=24, kernel_width=6),
                 dict(kind="smooth", shape=[12, 12, 12], C=6, calib_width=12, kernel_width=4),
                 dict(kind="random", shape=[16, 16], C=8, calib_width=12, kernel_width=5, crop=0.7),
                 dict(kind="random", shape=[8, 8, 8], C=2, calib_width=6, kernel_width=3, thresh=0.2)]
    for b in base:
        yield dict(fn="mri.espirit", args=dict(b, seed=seed))


def groups(tier, seed):
    yield dict(name="EspiritCalib: unit norm or exactly zero, first coil real >= 0, eigenvalues in [0, 1], zero <=> eigenvalue <= crop, true maps recovered",
               bound="random and birdcage-synthesised k-space, 2-D <= 16x16 (24x24 thorough), 3-D <= 8x8x8 (12^3 thorough), 2..8 coils, calib_width 5..24, "
                     "kernel_width 2..6, thresh 0.02..0.2, crop 0.5..0.95; eigenvalue <= 1 checked with 1e-3 slack; interior magnitudes within 0.05 of the true maps",
               cases=cases(tier, seed))
