import itertools


def cases(tier, seed):
    T = tier != "quick"
    shapes = [[1], [2], [3], [7], [8], [16], [33], [6, 5], [8, 8], [12, 9], [4, 5, 6], [6, 6, 6]]
    if T:
        shapes += [[64], [5, 1], [1, 6], [17, 16], [3, 3, 3], [8, 7, 6]]
    for shape in shapes:
        for kind in ("random", "grid", "half", "cluster", "out"):
            for batch in (0, 1):
                yield dict(fn="fourier.nufft", args=dict(shape=shape, kind=kind, batch=batch, defaults=True, seed=seed))
                yield dict(fn="fourier.nufft", args=dict(shape=shape, kind=kind, batch=batch, oversamp=2.0, width=4, seed=seed))
            if not T and kind in ("random", "out") and shape in ([8], [7], [6, 5], [8, 8], [4, 5, 6]):
                # odd / wide kernels: the adjoint and periodicity clauses hold for every width, the 0.3 % bound for oversamp=2
                for os_, w in ((1.25, 3), (1.5, 5), (2.0, 5), (2.0, 6), (1.25, 3.5)):
                    yield dict(fn="fourier.nufft", args=dict(shape=shape, kind=kind, batch=0, oversamp=os_, width=w, seed=seed))
            if T:
                for os_, w in itertools.product((1.25, 1.5, 2.0), (3, 4, 5, 6)):
                    yield dict(fn="fourier.nufft", args=dict(shape=shape, kind=kind, batch=0, oversamp=os_, width=w, seed=seed))
    yield dict(fn="fourier.nufft", args=dict(shape=[8, 6], kind="random", batch=0, pts_rank=2, defaults=True, seed=seed))
    yield dict(fn="fourier.nufft", args=dict(shape=[8, 6], kind="out", batch=1, pts_rank=2, oversamp=2.0, width=4, seed=seed))


def groups(tier, seed):
    yield dict(name="nufft against the exact non-uniform DFT; periodicity; adjoint dot test; Gram",
               bound="1-3-D shapes (1..33 / 12x9 / 6x6x6; thorough up to 64, 17x16, 8x7x6), 40 points of 5 kinds (random, on-grid, half-integer, clustered, "
                     "out-of-range), 0-1 batch axes; accuracy thresholds only where the property states them: 3% at the defaults, 0.3% at oversamp=2 (width>=4)",
               cases=cases(tier, seed))
