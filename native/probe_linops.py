"""concrete instances of every operator variant of contracts/linops.py (shared by the C01-C04 bounded probes)"""
import sys, os, itertools
BOUND = "every class/variant of the instance table at 2 concrete shape assignments (small extents incl. size-1 axes), seeded complex data"


def variants(tier):
    sys.path.insert(0, os.path.join(os.path.dirname(os.path.abspath(__file__)), ".."))
    # the table is data only: import it without the symbolic engine
    import ast
    src = open(os.path.join(os.path.dirname(os.path.abspath(__file__)), "..", "contracts", "linops.py")).read()
    tree = ast.parse(src)
    fn = [n for n in tree.body if isinstance(n, ast.FunctionDef) and n.name == "variants"][0]
    ns = {}
    exec(compile(ast.Module(body=[fn], type_ignores=[]), "variants", "exec"), ns)
    return ns["variants"](tier)


def cases(prop, tier, seed, skip=()):
    for cls, v in variants(tier):
        if cls in skip:
            continue
        for k, model in enumerate(({}, {"n0": 1, "m0": 1, "g0": 5, "N0": 7, "B0": 3, "S0": 2, "N1": 5, "B1": 2, "S1": 3, "e0": 1, "c0": 1, "f0": 2, "st0": 3, "s0": 0, "s1": 0})):
            if k == 1 and (cls in ("Slice", "Embed") or cls.startswith("Convolve")):
                continue
            vv = {kk: (list(x) if isinstance(x, tuple) else x) for kk, x in v.items()}
            may = cls in ("MatMul", "RightMatMul") or v.get("kind") == "free"
            if cls in ("MatMul", "RightMatMul"):
                # compatible shapes for the matrix product
                model = dict(model)
                r, mr = v.get("rank", 2), v.get("mrank", 2)
                inner = 3
                if cls == "MatMul":
                    key_m = "m%d" % ((mr - 2) if v.get("adjoint") else (mr - 1))
                    model[key_m] = inner
                    model["n%d" % (r - 2)] = inner
                else:
                    key_m = "m%d" % ((mr - 1) if v.get("adjoint") else (mr - 2))
                    model[key_m] = inner
                    model["n%d" % (r - 1)] = inner
                for d in range(max(r, mr) - 2):
                    model["n%d" % d] = 2 if d < r - 2 else model.get("n%d" % d, 2)
                    model["m%d" % d] = 2 if d < mr - 2 else model.get("m%d" % d, 2)
            yield dict(fn="linop.check", seed=seed + k, args=dict(cls=cls, v=vv, model=model, props=[prop], may_reject=may, seed=seed + k))
