"""Bounded run-time contract check (conformance probe): enumerate small concrete cases of a property's contracts and run
the REAL function against the concrete side of the contract.  Never counted as proved; labelled bounded in the evidence."""
import importlib
import json
import sys
import time
import traceback

if __name__ == "__main__":
    req = json.loads(sys.stdin.read())
    mod = importlib.import_module("probe_" + req["prop"])
    import replay
    import signal

    class _Timeout(BaseException):
        pass

    def _alarm(*a):
        raise _Timeout()
    signal.signal(signal.SIGALRM, _alarm)
    per_case = int(req.get("per_case_timeout_s", 30))
    out = []
    for group in mod.groups(req.get("tier", "quick"), int(req.get("seed", 0))):
        t0 = time.time()
        n = 0
        fails = []
        err = None
        try:
            for case in group["cases"]:
                n += 1
                try:
                    signal.alarm(per_case)
                    try:
                        res = replay.run(case)
                    finally:
                        signal.alarm(0)
                except _Timeout:
                    res = dict(reproduced=True, detail="the real code did not return within %d s (non-termination?)" % per_case)
                except Exception as e:
                    if case.get("expect") == "raises":
                        continue
                    res = dict(reproduced=case.get("expect", "no-exception") == "no-exception",
                               detail="real code raised %s: %s" % (type(e).__name__, str(e)[:300]))
                else:
                    if case.get("expect") == "raises":
                        res = dict(reproduced=True, detail="real code returned a result where the contract requires an exception")
                if res.get("reproduced") and len(fails) < 5:
                    fails.append(dict(replay_request=case, detail=res.get("detail")))
        except Exception as e:
            err = "%s: %s %s" % (type(e).__name__, e, traceback.format_exc()[-800:])
        d = dict(name=group["name"], bound=group["bound"], cases=n, failures=fails, wall_s=round(time.time() - t0, 2))
        if err:
            d["error"] = err
        out.append(d)
    print(json.dumps(out))
