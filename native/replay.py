"""Native replay: run the REAL function on the concrete input of a counter-model / bounded case and compare with
the concrete side of its contract.  stdin: JSON request, stdout: JSON {reproduced: bool, detail: ...}"""
import json
import sys
import traceback
import numpy as np


def L(x):
    return None if x is None else [int(v) for v in x]


def run(req):
    import sigpy as sp
    import specs_np as S
    fn = req["fn"]
    a = req.get("args", {})
    seed = int(req.get("seed", 0))
    if fn == "util.resize":
        x = S.rng_complex(L(a["ishape"]), seed)
        got = sp.util.resize(x.copy(), L(a["oshape"]), ishift=L(a.get("ishift")), oshift=L(a.get("oshift")))
        want = S.spec_resize(x, L(a["oshape"]), L(a.get("ishift")), L(a.get("oshift")))
    elif fn == "util.flip":
        x = S.rng_complex(L(a["shape"]), seed)
        got = sp.util.flip(x.copy(), L(a.get("axes")))
        want = S.spec_flip(x, L(a.get("axes")))
    elif fn == "util.circshift":
        x = S.rng_complex(L(a["shape"]), seed)
        got = sp.util.circshift(x.copy(), L(a["shifts"]), L(a.get("axes")))
        want = S.spec_circshift(x, L(a["shifts"]), L(a.get("axes")))
    elif fn == "util.downsample":
        x = S.rng_complex(L(a["shape"]), seed)
        got = sp.util.downsample(x.copy(), L(a["factors"]), L(a.get("shift")))
        want = S.spec_downsample(x, L(a["factors"]), L(a.get("shift")))
    elif fn == "util.upsample":
        x = S.rng_complex(L(a["ishape"]), seed)
        got = sp.util.upsample(x.copy(), L(a["oshape"]), L(a["factors"]), L(a.get("shift")))
        want = S.spec_upsample(x, L(a["oshape"]), L(a["factors"]), L(a.get("shift")))
    elif fn == "block.array_to_blocks":
        x = S.rng_complex(L(a["shape"]), seed)
        got = sp.block.array_to_blocks(x.copy(), L(a["blk_shape"]), L(a["blk_strides"]))
        want = S.spec_array_to_blocks(x, L(a["blk_shape"]), L(a["blk_strides"]))
    elif fn == "block.blocks_to_array":
        x = S.rng_complex(L(a["shape"]), seed)
        got = sp.block.blocks_to_array(x.copy(), L(a["oshape"]), L(a["blk_shape"]), L(a["blk_strides"]))
        want = S.spec_blocks_to_array(x, L(a["oshape"]), L(a["blk_shape"]), L(a["blk_strides"]))
    else:
        import replay_more
        return replay_more.run(req)
    ok = S.close(got, want)
    return dict(reproduced=not ok, detail=dict(got_shape=list(np.shape(got)), want_shape=list(np.shape(want)),
                                               max_abs_diff=(float(np.max(np.abs(np.asarray(got) - want))) if np.shape(got) == np.shape(want) and np.size(want) else None)))


if __name__ == "__main__":
    req = json.loads(sys.stdin.read())
    try:
        res = run(req)
    except Exception as e:
        if req.get("expect") == "no-exception":
            res = dict(reproduced=True, detail="real code raised %s: %s" % (type(e).__name__, e))
        else:
            res = dict(reproduced=False, detail="exception during replay %s: %s" % (type(e).__name__, e), trace=traceback.format_exc()[-1500:])
    print(json.dumps(res))
