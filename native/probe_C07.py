import itertools


def cases(tier, seed):
    grids = [[5], [1], [4, 3], [1, 6], [3, 2, 4]] + ([[7], [6, 5]] if tier != "quick" else [])
    for grid in grids:
        D = len(grid)
        for kernel, params in (("spline", (0, 1, 2)), ("kaiser_bessel", (2.34, 9.14))):
            for p in params:
                for width in (1.0, 2.0, 2.5, 4.0):
                    for special in (None, "half-integers", "integers", "duplicates"):
                        if D == 3 and (width > 2.5 or special in ("duplicates",)):
                            continue
                        for batch in ([], [2]):
                            if batch and special is not None:
                                continue
                            yield dict(fn="interp.check", args=dict(grid=grid, batch=batch, kernel=kernel, width=width, param=p, special=special, npts=4, seed=seed))
        if D >= 2:
            yield dict(fn="interp.check", args=dict(grid=grid, kernel="kaiser_bessel", width=[2.0, 3.5, 1.5][:D], param=[3.0, 7.0, 5.0][:D], npts=4, seed=seed))
            yield dict(fn="interp.check", args=dict(grid=grid, kernel="spline", width=[3.0, 2.0, 2.5][:D], param=[2, 0, 1][:D], npts=4, seed=seed, batch=[2]))


def groups(tier, seed):
    yield dict(name="interpolate/gridding vs explicit kernel sums", bound="grids [5],[1],[4,3],[1,6],[3,2,4]; kernels spline 0/1/2, Kaiser-Bessel beta 2.34/9.14; "
               "widths 1/2/2.5/4 and per-axis; coordinates random (far outside the grid too) / half-integer / integer / duplicate; batch axis", cases=cases(tier, seed))
