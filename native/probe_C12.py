import itertools


def cases(tier, seed):
    ns = (1, 2, 3, 5, 8) if tier == "quick" else (1, 2, 3, 4, 5, 8, 12)
    for n, cplx, pre in itertools.product(ns, (False, True), (False, True)):
        for mi in sorted({1, 2, n, n + 3}):
            for cond in ((10.0, 1000.0) if tier != "quick" else (100.0,)):
                yield dict(fn="alg.cg", args=dict(n=n, complex=cplx, precond=pre, max_iter=mi, cond=cond, seed=seed + n))
    for n, cplx in itertools.product((2, 3, 5), (False, True)):
        yield dict(fn="alg.cg", args=dict(n=n, complex=cplx, precond="identity-same-array", max_iter=n + 1, cond=100.0, seed=seed + n))
    for n, cplx, pre in itertools.product((2, 3, 5), (False, True), (False, True)):
        yield dict(fn="alg.cg_krylov", args=dict(n=n, complex=cplx, precond=pre, seed=seed + n))
    for n in (1, 2, 4):
        yield dict(fn="alg.cg_indefinite", args=dict(n=n, seed=seed))


def groups(tier, seed):
    yield dict(name="ConjugateGradient on dense SPD systems", bound="n in {1,2,3,5,8}(+4,12 thorough), real/complex, with/without P (and a preconditioner returning its argument), "
               "max_iter in {1,2,n,n+3}; Krylov optimality of every iterate for n in {2,3,5}; indefinite n in {1,2,4}", cases=cases(tier, seed))
