"""Concrete construction of the operator variants of contracts/linops.py and run-time checks of the C01-C04 clauses."""
import itertools
import numpy as np


def cplx(shape, rs):
    return np.asarray(rs.standard_normal(shape) + 1j * rs.standard_normal(shape)).astype(np.complex128).reshape(shape)


def mk(cls, v, m, rs):
    """m: dict of concrete integers by symbolic name (n0, m0, ...); missing names get small defaults"""
    import sigpy as sp
    L = sp.linop
    g = lambda name, d=3: int(m.get(name, d))
    r = v.get("rank", 2)
    sh = lambda p, rr, d=3: [g("%s%d" % (p, i), d + i) for i in range(rr)]
    if cls == "Identity":
        return L.Identity(sh("n", r))
    if cls == "Reshape":
        n = sh("n", r)
        k = v["kind"]
        return {"add-unit": lambda: L.Reshape([1] + n, n), "drop-unit": lambda: L.Reshape(n, [1] + n),
                "merge": lambda: L.Reshape([int(np.prod(n))], n), "split": lambda: L.Reshape(n, [int(np.prod(n))])}[k]()
    if cls == "Transpose":
        return L.Transpose(sh("n", r), axes=v["axes"])
    if cls == "Resize":
        n, mm = sh("n", v["ri"]), sh("m", v["ro"], 2)
        si = so = None
        if v.get("shifts"):
            rr = max(v["ri"], v["ro"])
            si = [g("si%d" % i, 0) for i in range(rr)]
            so = [g("so%d" % i, 0) for i in range(rr)]
        return L.Resize(mm, n, ishift=si, oshift=so)
    if cls == "Flip":
        return L.Flip(sh("n", r), axes=v["axes"])
    if cls in ("Downsample", "Upsample"):
        n = sh("n", r, 5)
        f = [g("f%d" % i, 2) for i in range(r)]
        s = [g("s%d" % i, 1) for i in range(r)] if v.get("shift") else None
        return getattr(L, cls)(n, f, shift=s)
    if cls == "Circshift":
        n = sh("n", r)
        ax = v["axes"]
        return L.Circshift(n, [g("s%d" % i, 1 + i) for i in range(r if ax is None else len(ax))], axes=ax)
    if cls in ("Sum", "Tile"):
        return getattr(L, cls)(sh("n", r), v["axes"])
    if cls in ("Slice", "Embed"):
        n = sh("n", r, 4)
        kind = v["kind"]
        a, b = g("a", 1), g("b", 3)
        idx = {"range": slice(a, b), "tuple": tuple([slice(None)] * (r - 1) + [slice(a, b)]), "step": slice(None, None, 2),
               "int": (a,) + (slice(None),) * (r - 1)}[kind]
        return getattr(L, cls)(n, idx)
    if cls == "Multiply":
        n = sh("n", r)
        kind = v["kind"]
        if kind == "scalar":
            return L.Multiply(n, complex(m.get("a.re", 0.7), m.get("a.im", -1.3)), conj=v.get("conj", False))
        if kind == "same":
            return L.Multiply(n, cplx(n, rs), conj=v.get("conj", False))
        mm = sh("m", v.get("mrank", r))
        return L.Multiply(n, cplx(mm, rs), conj=v.get("conj", False))
    if cls in ("MatMul", "RightMatMul"):
        n, mm = sh("n", r), sh("m", v.get("mrank", 2))
        return getattr(L, cls)(n, cplx(mm, rs), adjoint=v.get("adjoint", False))
    if cls in ("ArrayToBlocks", "BlocksToArray"):
        D = v["D"]
        N, B, St = [g("N%d" % i, 6) for i in range(D)], [g("B%d" % i, 3) for i in range(D)], [g("S%d" % i, 2) for i in range(D)]
        bt = [g("bt%d" % i, 2) for i in range(v.get("nbatch", 0))]
        return getattr(L, cls)(bt + N, B, St)
    if cls in ("FFT", "IFFT"):
        return getattr(L, cls)(sh("n", r), axes=v["axes"], center=v.get("center", True))
    if cls in ("Interpolate", "Gridding", "NUFFT", "NUFFTAdjoint"):
        nd = v["ndim"]
        gshape = [g("g%d" % i, 6 + i) for i in range(nd)]
        bt = [g("bt%d" % i, 2) for i in range(v.get("nbatch", 0))]
        pts = [g("p%d" % i, 5) for i in range(v.get("pts_rank", 1))]
        coord = rs.uniform(-gshape[0] / 2 - 1, gshape[0] / 2 + 1, size=pts + [nd])
        if cls in ("Interpolate", "Gridding"):
            return getattr(L, cls)(bt + gshape, coord, kernel=v.get("kernel", "kaiser_bessel"), width=float(m.get("width", 2.5)), param=float(m.get("param", 1.5)))
        if cls == "NUFFT":
            return L.NUFFT(bt + gshape, coord, oversamp=float(m.get("oversamp", 1.5)), width=float(m.get("width", 3.0)), toeplitz=v.get("toeplitz", False))
        return L.NUFFTAdjoint(bt + gshape, coord, oversamp=float(m.get("oversamp", 1.5)), width=float(m.get("width", 3.0)))
    if cls in ("Wavelet", "InverseWavelet"):
        return getattr(L, cls)(sh("n", r, 5), axes=v.get("axes"), wave_name=v.get("wave", "db4"), level=v.get("level"))
    if cls.startswith("Convolve"):
        D = v["D"]
        mc = v.get("mc", False)
        mm, ff = [g("m%d" % i, 6) for i in range(D)], [g("f%d" % i, 3) for i in range(D)]
        st = [g("st%d" % i, 2) for i in range(D)] if v.get("strides") else None
        ci, co = g("c0", 2), g("c1", 3)
        dshape, fshape = ([ci] + mm, [co, ci] + ff) if mc else (mm, ff)
        bt = [g("bt%d" % i, 2) for i in range(v.get("nbatch", 0))]
        dshape = bt + dshape
        if cls.startswith("ConvolveData"):
            return getattr(L, cls)(dshape, cplx(fshape, rs), mode=v.get("mode", "full"), strides=st, multi_channel=mc)
        return getattr(L, cls)(fshape, cplx(dshape, rs), mode=v.get("mode", "full"), strides=st, multi_channel=mc)

    def G(o, i):
        return L.MatMul(list(i) + [1], cplx([int(np.prod(o)), int(np.prod(i))], rs)) if False else _dense(L, o, i, rs)
    if cls == "Conj":
        return L.Conj(G(sh("o", r), sh("i", r)))
    if cls == "Compose":
        k = v["k"]
        shapes = [[g("d%d_0" % j, 2 + j)] for j in range(k + 1)]
        return L.Compose([G(shapes[j], shapes[j + 1]) for j in range(k)])
    if cls == "Add":
        o, i = sh("o", r), sh("i", r)
        return L.Add([G(o, i) for _ in range(v["k"])])
    if cls in ("Hstack", "Vstack", "Diag"):
        k, axis = v["k"], v["axis"]
        rr = v.get("rank", 1)
        common = sh("c", rr, 2)
        ops = []
        for j in range(k):
            ish, osh = list(common), list(common)
            ax = 0 if axis is None else axis % rr
            e, e2 = g("e%d" % j, 2 + j), g("g%d" % j, 1 + j)
            if cls == "Hstack":
                ish[ax] = e
                if axis is None:
                    ish = [g("i%d_%d" % (j, d), 2 + j) for d in range(rr)]
                ops.append(G(sh("o", rr, 2), ish))
            elif cls == "Vstack":
                osh[ax] = e
                if axis is None:
                    osh = [g("o%d_%d" % (j, d), 2 + j) for d in range(rr)]
                ops.append(G(osh, sh("i", rr, 2)))
            else:
                ish[ax], osh[ax] = e, e2
                if axis is None:
                    ish, osh = [g("i%d_%d" % (j, d), 2 + j) for d in range(rr)], [g("o%d_%d" % (j, d), 1 + j) for d in range(rr)]
                ops.append(G(osh, ish))
        if cls == "Diag":
            return L.Diag(ops, oaxis=v.get("oaxis", axis), iaxis=v.get("iaxis", axis))
        return getattr(L, cls)(ops, axis=axis)
    if cls == "overload":
        o, i, mm = [g("o0", 3)], [g("i0", 2)], [g("m0", 4)]
        A, B, B2 = G(o, mm), G(mm, i), G(o, mm)
        a = complex(m.get("a.re", 0.5), m.get("a.im", 2.0))
        b = complex(m.get("b.re", -1.5), m.get("b.im", 0.75))
        B3 = G(o, i)
        kind = v["kind"]
        op = {"A*B": lambda: A * B, "a*A": lambda: a * A, "A*a": lambda: A * a, "A+B": lambda: A + B2, "A-B": lambda: A - B2,
              "-A": lambda: -A, "(A*B).H*(a*A)": lambda: (A * B).H * (a * A), "(a*A).H*(b*B3)": lambda: (a * A).H * (b * B3),
              "(a*A).H*(a*A)": lambda: (a * A).H * (a * A), "(a*A).H*b": lambda: (a * A).H * b}[kind]()
        dA, dB, dB2, dB3 = dense_matrix(A), dense_matrix(B), dense_matrix(B2), dense_matrix(B3)
        AH = dA.conj().T
        op._expected_dense = {"A*B": lambda: dA @ dB, "a*A": lambda: a * dA, "A*a": lambda: a * dA, "A+B": lambda: dA + dB2, "A-B": lambda: dA - dB2,
                              "-A": lambda: -dA, "(A*B).H*(a*A)": lambda: (dA @ dB).conj().T @ (a * dA),
                              "(a*A).H*(b*B3)": lambda: np.conj(a) * b * (AH @ dB3), "(a*A).H*(a*A)": lambda: abs(a) ** 2 * (AH @ dA),
                              "(a*A).H*b": lambda: np.conj(a) * b * AH}[kind]()
        return op
    if cls == "DiagMixed":
        k, iax, oax = v["k"], v["iaxis"], v["oaxis"]
        common = sh("c", 2, 2)
        ops = []
        for j in range(k):
            ish = [g("e%d" % j, 2 + j)]
            osh = list(common)
            osh[oax % 2] = g("g%d" % j, 1 + j)
            ops.append(G(osh, ish))
        op = L.Diag(ops, oaxis=oax, iaxis=iax)
        # explicit block-diagonal matrix: inputs stacked along axis 0 of rank-1 vectors, outputs along oax of rank-2 arrays
        full_o = list(common)
        full_o[oax % 2] = sum(o_.oshape[oax % 2] for o_ in ops)
        idx = np.arange(int(np.prod(full_o))).reshape(full_o)
        want = np.zeros((int(np.prod(full_o)), sum(o_.ishape[0] for o_ in ops)), dtype=np.complex128)
        ro, co = 0, 0
        for o_ in ops:
            sl = [slice(None)] * 2
            sl[oax % 2] = slice(ro, ro + o_.oshape[oax % 2])
            rows = idx[tuple(sl)].ravel()
            want[np.ix_(rows, np.arange(co, co + o_.ishape[0]))] = dense_matrix(o_)
            ro += o_.oshape[oax % 2]
            co += o_.ishape[0]
        op._expected_dense = want
        op._expected_oshape = full_o
        return op
    if cls == "FiniteDifference":
        return L.FiniteDifference(sh("n", r), axes=v.get("axes"))
    raise KeyError(cls)


def _dense(L, o, i, rs):
    """a dense operator oshape x ishape built from verified-elsewhere pieces: Reshape * MatMul * Reshape"""
    no, ni = int(np.prod(o)), int(np.prod(i))
    M = L.MatMul([ni, 1], cplx([no, ni], rs))
    return L.Reshape(o, [no, 1]) * M * L.Reshape([ni, 1], i)


def dense_matrix(A):
    ni = int(np.prod(A.ishape))
    cols = []
    for j in range(ni):
        e = np.zeros(ni, dtype=np.complex128)
        e[j] = 1
        cols.append(np.asarray(A(e.reshape(A.ishape))).ravel())
    return np.stack(cols, axis=1)


def check(A, props, rs, tol=1e-9):
    """returns list of failed-clause strings"""
    bad = []
    x, y = cplx(A.ishape, rs), cplx(A.oshape, rs)
    x0 = x.copy()
    ap = lambda op, v: op.apply(np.asarray(v))
    Ax = ap(A, x)
    if "C02" in props and not np.array_equal(x, x0):
        bad.append("C02: apply modified its input")
    if "C03" in props and list(np.shape(Ax)) != list(A.oshape):
        bad.append("C03: output shape %s != advertised %s" % (list(np.shape(Ax)), list(A.oshape)))
    if "C02" in props:
        x2 = cplx(A.ishape, rs)
        a = 0.3 - 1.7j
        lhs, rhs = ap(A, a * x + x2), a * ap(A, x) + ap(A, x2)
        if np.max(np.abs(lhs - rhs)) > 1e-8 * max(1, np.max(np.abs(rhs))):
            bad.append("C02: A(a x + y) != a A(x) + A(y) (max dev %g)" % np.max(np.abs(lhs - rhs)))
        if np.max(np.abs(np.asarray(ap(A, x)) - np.asarray(Ax))) > 0:
            bad.append("C02: second application to the same input differs")
    if "C01" in props or "C04" in props:
        H = A.H
    if "C01" in props:
        if list(H.ishape) != list(A.oshape) or list(H.oshape) != list(A.ishape):
            bad.append("C01: adjoint shapes %s x %s not swapped (%s x %s)" % (H.oshape, H.ishape, A.oshape, A.ishape))
        else:
            l, r = np.vdot(y, Ax), np.vdot(ap(H, y), x)
            if abs(l - r) > 1e-8 * max(1, abs(l)):
                bad.append("C01: <Ax,y>=%s but <x,AHy>=%s" % (l, r))
            hh = ap(H.H, x)
            if np.shape(hh) != np.shape(Ax) or np.max(np.abs(hh - Ax)) > 1e-8 * max(1, np.max(np.abs(Ax))):
                bad.append("C01: A.H.H does not act like A")
    if "C04" in props:
        n1, n2 = ap(A.N, x), ap(H, Ax)
        tol4 = (0.03 if getattr(A, "width", 4) >= 4 else 0.08) if getattr(A, "toeplitz", False) else 1e-8     # Toeplitz embedding: equal within the NUFFT interpolation accuracy (l2)
        if np.shape(n1) != np.shape(n2):
            bad.append("C04: A.N x has shape %s, A.H A x has shape %s" % (np.shape(n1), np.shape(n2)))
        else:
            rel = float(np.linalg.norm(np.ravel(n1 - n2)) / max(1e-30, np.linalg.norm(np.ravel(n2))))
            if rel > tol4:
                bad.append("C04: A.N x differs from A.H A x (relative l2 error %g > %g)" % (rel, tol4))
    return bad


def check_algebra(A, cls, v):
    """dense matrix of the composite vs the matrix expression of its parts (structural classes only)"""
    import sigpy as sp
    bad = []
    exp = getattr(A, "_expected_dense", None)
    if exp is not None:
        M = dense_matrix(A)
        if getattr(A, "_expected_oshape", None) is not None and list(A.oshape) != list(A._expected_oshape):
            bad.append("C03: advertised oshape %s, expected %s" % (list(A.oshape), list(A._expected_oshape)))
        elif exp.shape != M.shape or np.max(np.abs(exp - M)) > 1e-9 * max(1, np.max(np.abs(exp))):
            bad.append("C03: operator expression acts differently from the explicit matrix expression (max dev %g)" % (np.max(np.abs(exp - M)) if exp.shape == M.shape else -1))
        return bad
    ops = getattr(A, "linops", None)
    if ops is None:
        return bad
    M = dense_matrix(A)
    mats = [dense_matrix(o) for o in ops]
    want = None
    if isinstance(A, sp.linop.Compose):
        want = mats[0]
        for m in mats[1:]:
            want = want @ m
    elif isinstance(A, sp.linop.Add):
        want = sum(mats)
    elif isinstance(A, (sp.linop.Hstack, sp.linop.Vstack, sp.linop.Diag)):
        axis = v.get("axis")
        rr = v.get("rank", 1)

        def blocks(shapes, ax):
            """index sets (into the flattened stacked array) of each block along axis ax (None = flattened vectors)"""
            if ax is None:
                sizes = [int(np.prod(s)) for s in shapes]
                offs = np.cumsum([0] + sizes)
                return [np.arange(offs[j], offs[j + 1]) for j in range(len(shapes))], int(offs[-1])
            full = list(shapes[0])
            full[ax] = sum(s[ax] for s in shapes)
            idx = np.arange(int(np.prod(full))).reshape(full)
            out, off = [], 0
            for s in shapes:
                sl = [slice(None)] * len(full)
                sl[ax] = slice(off, off + s[ax])
                out.append(idx[tuple(sl)].ravel())
                off += s[ax]
            return out, int(np.prod(full))
        ax = None if axis is None else axis % rr
        no, ni = int(np.prod(A.oshape)), int(np.prod(A.ishape))
        want = np.zeros((no, ni), dtype=np.complex128)
        if isinstance(A, sp.linop.Hstack):
            cols, _ = blocks([o.ishape for o in ops], ax)
            for m, c in zip(mats, cols):
                want[:, c] += m
        elif isinstance(A, sp.linop.Vstack):
            rows, _ = blocks([o.oshape for o in ops], ax)
            for m, r in zip(mats, rows):
                want[r, :] += m
        else:
            cols, _ = blocks([o.ishape for o in ops], ax)
            rows, _ = blocks([o.oshape for o in ops], ax)
            for m, r, c in zip(mats, rows, cols):
                want[np.ix_(r, c)] += m
    if want is not None and (want.shape != M.shape or np.max(np.abs(want - M)) > 1e-9 * max(1, np.max(np.abs(want)))):
        bad.append("C03: composite acts differently from the matrix expression of its parts (max dev %g)" % (np.max(np.abs(want - M)) if want.shape == M.shape else -1))
    return bad
