import itertools


def cases(tier, seed):
    for sim in ("abrm", "abrm_nd", "abrm_hp", "blochsim", "abrm_ptx"):
        for Nt, flip in itertools.product((1, 2, 16, 64), (0.1, 1.0, 6.0)):
            for d in ((1, 2, 3) if sim in ("abrm_nd", "blochsim") else (1,)):
                yield dict(fn="rf.bloch", args=dict(sim=sim, Nt=Nt, flip=flip, d=d, seed=seed, compose=Nt >= 2))
        yield dict(fn="rf.bloch", args=dict(sim=sim, Nt=8, zero=True, seed=seed))
        if sim != "abrm_ptx":
            for pad in ("tail", "head", "both"):
                for d in ((1, 2) if sim in ("abrm_nd", "blochsim") else (1,)):
                    yield dict(fn="rf.bloch", args=dict(sim=sim, Nt=12, flip=1.0, d=d, seed=seed, compose=True, pad=pad))
    for Nt, flip in ((16, 1.0), (12, 0.3), (1, 2.0)):
        yield dict(fn="rf.bloch", args=dict(sim="abrm", Nt=Nt, flip=flip, balanced=True, seed=seed))
    for n, peak in itertools.product((8, 16, 32), (0.3, 0.7, 0.95)):
        yield dict(fn="rf.slr", args=dict(n=n, peak=peak, seed=seed))


def groups(tier, seed):
    yield dict(name="Bloch simulators: unit norm, identity for a zero pulse, composition; inverse SLR round trip",
               bound="5 simulators x Nt {1,2,16,64} x flip scale {0.1,1,6} x spatial dims 1..3, plus zero-padded (RF-free head / tail) pulses with the gradient on; random complex beta polynomials n {8,16,32}, peak {0.3,0.7,0.95}",
               cases=cases(tier, seed))
