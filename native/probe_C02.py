def groups(tier, seed):
    import probe_linops
    yield dict(name="frames of public array functions and Prox objects", bound="one sample call per function x {complex, real, strided view, complex64}",
               cases=[dict(fn="frame.check", args=dict(function=None, seed=seed))])
    yield dict(name="linearity / determinism / no mutation of every operator variant", bound=probe_linops.BOUND,
               cases=probe_linops.cases("C02", tier, seed))
