def run(req):
    return dict(reproduced=False, detail="no replay handler for %s" % req.get("fn"))
