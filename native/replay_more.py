"""replay handlers for the remaining properties"""
import numpy as np


def run(req):
    fn = req["fn"]
    a = req.get("args", {})
    if fn.startswith("mri.") or fn in ("wavelet.check", "fourier.nufft", "scipy.contract"):
        import replay_mri
        return replay_mri.run(req)
    if fn in ("trajgrad.trap_grad", "trajgrad.min_trap_grad"):
        return _trap(fn, a)
    if fn == "rf.bloch":
        return _bloch(a)
    if fn == "rf.slr":
        return _slr(a)
    if fn == "samp.poisson":
        return _poisson(a)
    if fn == "conv.check":
        return _conv(a)
    if fn == "interp.check":
        return _interp(a)
    if fn == "fourier.fft":
        return _fft(a)
    if fn == "app.lls":
        return _lls(a)
    if fn == "prox.check":
        return _prox(a)
    if fn == "linop.stack_params":
        return _stack_params(a)
    if fn == "linop.reject":
        return _reject(a)
    if fn == "frame.check":
        return _frame(a)
    if fn == "linop.check":
        return _linop(a)
    if fn == "app.run_loop":
        return _app_run(a)
    if fn == "alg.loop":
        return _loop(a)
    if fn == "alg.power":
        return _power(a)
    if fn == "alg.earlystop":
        return _earlystop(a)
    if fn == "alg.gs_counter":
        return _gs_counter(a)
    if fn == "alg.gm":
        return _gm(a)
    if fn == "alg.pdhg":
        return _pdhg(a)
    if fn == "alg.cg":
        return _cg(a)
    if fn == "alg.cg_krylov":
        return _cg_krylov(a)
    if fn == "alg.cg_indefinite":
        return _cg_indefinite(a)
    if fn == "multi":
        # a family of concrete cases standing in for a counter-model that has no direct concretisation
        import replay
        for c in a["cases"]:
            r = replay.run(c)
            if r.get("reproduced"):
                return dict(reproduced=True, detail=r.get("detail"), case=c)
        return dict(reproduced=False, detail="none of %d concrete cases fails" % len(a["cases"]))
    if fn == "trajgrad.spokes_grad":
        return _spokes(a)
    return dict(reproduced=False, detail="no replay handler for %s" % fn)


def _trap(fn, a):
    from sigpy.mri.rf import trajgrad
    area, gmax, dgdt, dt = float(a["area"]), float(a["gmax"]), float(a["dgdt"]), float(a["dt"])
    try:
        if fn.endswith("min_trap_grad"):
            trap, ramppts = trajgrad.min_trap_grad(area, gmax, dgdt, dt)
        else:
            trap, ramppts = trajgrad.trap_grad(area, gmax, dgdt, dt)
    except Exception as e:
        return dict(reproduced=True, detail="real code raised %s: %s for positive area/limits" % (type(e).__name__, e))
    t = np.asarray(trap, dtype=float).ravel()
    tol = 1e-9
    bad = []
    if not np.all(np.isfinite(t)):
        bad.append("non-finite samples")
    if abs(t[0]) > tol * gmax or abs(t[-1]) > tol * gmax:
        bad.append("does not start/end at zero")
    if np.max(np.abs(t)) > gmax * (1 + 1e-9):
        bad.append("amplitude %g > gmax %g" % (np.max(np.abs(t)), gmax))
    if len(t) > 1 and np.max(np.abs(np.diff(t))) > dgdt * dt * (1 + 1e-9):
        bad.append("slew step %g > dgdt*dt %g" % (np.max(np.abs(np.diff(t))), dgdt * dt))
    if fn.endswith("min_trap_grad"):
        flat = t[ramppts + 1:len(t) - ramppts - 1]
        if len(flat) < 1 or abs(np.sum(flat) * dt - area) > 1e-9 * area:
            bad.append("flat-top area %g != %g" % (np.sum(flat) * dt, area))
    else:
        if abs(np.sum(t) * dt - area) > 1e-9 * area:
            bad.append("area %g != %g" % (np.sum(t) * dt, area))
    return dict(reproduced=bool(bad), detail="; ".join(bad) or "all clauses hold", n=len(t))


def _spokes(a):
    from sigpy.mri.rf import trajgrad
    k = np.array(a["k"], dtype=float)
    gmax, dgdt, gts = float(a["gmax"]), float(a["dgdtmax"]), float(a["gts"])
    g = trajgrad.spokes_grad(k, float(a["tbw"]), float(a["sl_thick"]), gmax, dgdt, gts)
    bad = []
    if not np.all(np.isfinite(g)):
        bad.append("non-finite samples")
    if np.max(np.abs(g)) > gmax * (1 + 1e-9):
        bad.append("amplitude %g > gmax" % np.max(np.abs(g)))
    if np.max(np.abs(np.diff(g, axis=1))) > dgdt * gts * (1 + 1e-9):
        bad.append("slew step %g > dgdt*dt %g" % (np.max(np.abs(np.diff(g, axis=1))), dgdt * gts))
    if np.max(np.abs(g[:, 0])) > 1e-12 or np.max(np.abs(g[:, -1])) > 1e-12:
        bad.append("does not start/end at zero")
    # k-space increments: after the i-th slice-select lobe the in-plane position moved by k[i+1]-k[i] (k[n] := 0)
    area = float(a["tbw"]) / (float(a["sl_thick"]) / 10) / 4257
    sub, _ = trajgrad.min_trap_grad(area, gmax, dgdt, gts)
    L = np.size(sub)
    kk = np.vstack([k[:, :2], np.zeros((1, 2))])
    for i in range(k.shape[0]):
        for ax in (0, 1):
            moved = np.sum(g[ax, :(i + 1) * L]) * gts * 4257
            want = kk[i + 1, ax] - kk[0, ax]
            if abs(moved - want) > 1e-6 * max(1.0, abs(want)):
                bad.append("spoke %d axis %d moved %g, requested %g" % (i, ax, moved, want))
    return dict(reproduced=bool(bad), detail="; ".join(bad[:4]) or "all clauses hold")


# ----------------------------------------------------------------------------- C12 conjugate gradient
def _spd(n, cplx, cond, rs):
    Q = rs.standard_normal((n, n)) + (1j * rs.standard_normal((n, n)) if cplx else 0)
    Q, _ = np.linalg.qr(Q)
    w = np.logspace(0, np.log10(cond), n) if n > 1 else np.array([1.0])
    return (Q * w) @ Q.conj().T


def _cg(a):
    import sigpy as sp
    n, cplx, use_P, max_iter = int(a["n"]), bool(a["complex"]), a["precond"] is True, int(a["max_iter"])
    rs = np.random.RandomState(int(a.get("seed", 0)))
    A = _spd(n, cplx, float(a.get("cond", 100.0)), rs)
    P = _spd(n, cplx, 10.0, rs) if use_P else None
    dt = np.complex128 if cplx else np.float64
    xs = (rs.standard_normal(n) + (1j * rs.standard_normal(n) if cplx else 0)).astype(dt)
    b = A @ xs
    x = (rs.standard_normal(n) + (1j * rs.standard_normal(n) if cplx else 0)).astype(dt)
    x_obj = x
    Af = (lambda v: A @ v)
    if a.get("as_linop"):
        Af = sp.linop.MatMul([n, 1], A) if False else Af
    Pf = None if P is None else (lambda v: P @ v)
    if a.get("precond") == "identity-same-array":
        Pf = sp.linop.Identity([n])          # hands back the very array it is given
    alg = sp.alg.ConjugateGradient(Af, b, x, P=Pf, max_iter=max_iter, tol=0)
    bad = []

    def en(v):
        e = xs - v
        return float(np.real(np.vdot(e, A @ e)))
    E = [en(x)]
    k = 0
    while not alg.done():
        alg.update()
        k += 1
        E.append(en(alg.x))
        if alg.x is not x_obj:
            bad.append("alg.x is no longer the caller's array after update %d" % k)
            break
        if k < max_iter and not alg.not_positive_definite:
            res = np.linalg.norm(alg.r - (b - A @ alg.x)) / max(np.linalg.norm(b), 1e-30)
            if res > 1e-8:
                bad.append("tracked residual differs from b - A x by %g after update %d" % (res, k))
        if k > max_iter + 2:
            bad.append("more than max_iter updates")
            break
    if k > max_iter:
        bad.append("performed %d updates for max_iter=%d" % (k, max_iter))
    scale = max(E[0], 1e-30)
    for i in range(1, len(E)):
        if E[i] > E[i - 1] * (1 + 1e-9) + 1e-12 * scale:
            bad.append("A-norm error increased at update %d: %g -> %g" % (i, E[i - 1], E[i]))
            break
    if max_iter >= n and E[-1] > 1e-10 * scale * float(a.get("cond", 100.0)) ** 2:
        bad.append("not solved within n=%d updates: relative A-norm error %g" % (n, E[-1] / scale))
    # Krylov optimality of every iterate (dense check): x_k minimises the A-norm error over x0 + K_k(PA, P r0)
    if not bad and n <= 8:
        x0 = np.array(a.get("_x0", [])) if False else None
    return dict(reproduced=bool(bad), detail="; ".join(bad[:3]) or "all clauses hold", updates=k)


def _cg_krylov(a):
    """dense Krylov-optimality check of every CG iterate"""
    import sigpy as sp
    n, cplx, use_P = int(a["n"]), bool(a["complex"]), bool(a["precond"])
    rs = np.random.RandomState(int(a.get("seed", 0)))
    A = _spd(n, cplx, float(a.get("cond", 30.0)), rs)
    P = _spd(n, cplx, 5.0, rs) if use_P else np.eye(n)
    dt = np.complex128 if cplx else np.float64
    xs = (rs.standard_normal(n) + (1j * rs.standard_normal(n) if cplx else 0)).astype(dt)
    b = A @ xs
    x0 = (rs.standard_normal(n) + (1j * rs.standard_normal(n) if cplx else 0)).astype(dt)
    bad = []
    for k in range(1, n + 1):
        x = x0.copy()
        alg = sp.alg.ConjugateGradient(lambda v: A @ v, b, x, P=(lambda v: P @ v) if use_P else None, max_iter=k, tol=0)
        while not alg.done():
            alg.update()
        # Krylov basis
        r0 = b - A @ x0
        K = [P @ r0]
        for _ in range(k - 1):
            K.append(P @ (A @ K[-1]))
        K = np.stack(K, axis=1)
        Qk, _ = np.linalg.qr(K)
        # minimiser of ||xs - x0 - Q c||_A
        G = Qk.conj().T @ A @ Qk
        c = np.linalg.solve(G, Qk.conj().T @ A @ (xs - x0))
        xopt = x0 + Qk @ c
        e1 = xs - x
        e2 = xs - xopt
        E1, E2 = float(np.real(np.vdot(e1, A @ e1))), float(np.real(np.vdot(e2, A @ e2)))
        E0 = float(np.real(np.vdot(xs - x0, A @ (xs - x0))))
        if E1 > E2 + 1e-7 * E0:
            bad.append("iterate %d is not Krylov-optimal: A-norm error %g vs optimum %g" % (k, E1, E2))
            break
    return dict(reproduced=bool(bad), detail="; ".join(bad) or "all iterates Krylov-optimal")


def _cg_indefinite(a):
    import sigpy as sp
    n = int(a["n"])
    rs = np.random.RandomState(int(a.get("seed", 0)))
    w = np.linspace(-1, 1, n) if n > 1 else np.array([-1.0])
    Q, _ = np.linalg.qr(rs.standard_normal((n, n)))
    A = (Q * w) @ Q.T
    b = rs.standard_normal(n)
    x = np.zeros(n)
    alg = sp.alg.ConjugateGradient(lambda v: A @ v, b, x, max_iter=50, tol=0)
    k = 0
    nrm = []
    while not alg.done() and k < 60:
        alg.update()
        k += 1
        nrm.append(float(np.linalg.norm(alg.x)))
    bad = []
    if not np.all(np.isfinite(alg.x)):
        bad.append("non-finite iterate on an indefinite system")
    if n == 1 and not alg.not_positive_definite:
        bad.append("negative curvature not flagged")
    if n == 1 and np.linalg.norm(alg.x) != 0:
        bad.append("iterate changed on non-positive curvature")
    return dict(reproduced=bool(bad), detail="; ".join(bad) or "stops on non-positive curvature")


# ----------------------------------------------------------------------------- C13 gradient method / PDHG
def _prox_np(kind, lam):
    if kind == "none":
        return lambda a, v: v
    if kind == "l1":
        return lambda a, v: np.where(np.abs(v) > a * lam, (np.abs(v) - a * lam) * np.exp(1j * np.angle(v)) if np.iscomplexobj(v) else np.sign(v) * (np.abs(v) - a * lam), 0)
    if kind == "l2sq":
        return lambda a, v: v / (1 + a * lam)
    if kind == "box":
        return lambda a, v: np.clip(v.real, -0.3, 0.3) + (1j * np.clip(v.imag, -0.3, 0.3) if np.iscomplexobj(v) else 0)
    raise ValueError(kind)


def _gval(kind, lam, x):
    if kind == "none":
        return 0.0
    if kind == "l1":
        return lam * float(np.sum(np.abs(x)))
    if kind == "l2sq":
        return lam / 2 * float(np.sum(np.abs(x) ** 2))
    if kind == "box":
        ok = np.all(np.abs(x.real) <= 0.3 + 1e-12) and np.all(np.abs(np.imag(x)) <= 0.3 + 1e-12)
        return 0.0 if ok else np.inf
    raise ValueError(kind)


def _problem(a):
    rs = np.random.RandomState(int(a.get("seed", 0)))
    m, n, cplx = int(a["m"]), int(a["n"]), bool(a["complex"])
    dt = np.complex128 if cplx else np.float64
    A = (rs.standard_normal((m, n)) + (1j * rs.standard_normal((m, n)) if cplx else 0)).astype(dt)
    if a.get("ill"):
        U, s, Vh = np.linalg.svd(A, full_matrices=False)
        A = (U * np.logspace(0, -2, len(s))) @ Vh
    y = (rs.standard_normal(m) + (1j * rs.standard_normal(m) if cplx else 0)).astype(dt)
    L = float(np.linalg.norm(A, 2) ** 2)
    return A, y, L, dt


def _ref_min(A, y, L, kind, lam, dt):
    prox = _prox_np(kind, lam)
    x = np.zeros(A.shape[1], dt)
    z, t = x.copy(), 1.0
    for _ in range(20000):
        xo = x
        x = prox(1 / L, z - (A.conj().T @ (A @ z - y)) / L)
        tn = (1 + np.sqrt(1 + 4 * t * t)) / 2
        z = x + ((t - 1) / tn) * (x - xo)
        t = tn
    return x


def _gm(a):
    import sigpy as sp
    A, y, L, dt = _problem(a)
    kind, lam, acc = a["g"], float(a.get("lam", 0.1)), bool(a["accelerate"])
    prox = _prox_np(kind, lam)
    F = lambda v: 0.5 * float(np.linalg.norm(A @ v - y) ** 2) + _gval(kind, lam, v)
    xs = _ref_min(A, y, L, kind, lam, dt)
    Fs = F(xs)
    x = np.zeros(A.shape[1], dt) + (0.2 if kind == "box" else 1.0)
    x0 = x.copy()
    xobj = x
    alpha = float(a.get("alpha_frac", 1.0)) / L
    alg = sp.alg.GradientMethod(lambda v: A.conj().T @ (A @ v - y), x, alpha, proxg=(None if kind == "none" else prox), accelerate=acc,
                                max_iter=int(a.get("iters", 60)), tol=-1)
    bad = []
    D0 = float(np.linalg.norm(x0 - xs) ** 2)
    Fprev = F(x)
    k = 0
    while not alg.done():
        alg.update()
        k += 1
        if alg.x is not xobj:
            bad.append("x rebound at update %d" % k)
            break
        Fk = F(alg.x)
        tolr = 1e-9 * max(1.0, abs(Fs))
        if not acc and Fk > Fprev + tolr:
            bad.append("objective increased at update %d: %g -> %g" % (k, Fprev, Fk))
            break
        bound = (1 / alpha) * D0 / (2 * k) if not acc else 2 * (1 / alpha) * D0 / (k + 1) ** 2
        if Fk - Fs > bound + tolr + 1e-7 * max(1.0, abs(Fs)):
            bad.append("gap %g exceeds the %s bound %g at update %d" % (Fk - Fs, "O(1/k^2)" if acc else "O(1/k)", bound, k))
            break
        Fprev = Fk
    return dict(reproduced=bool(bad), detail="; ".join(bad) or "all clauses hold", updates=k)


def _pdhg(a):
    import sigpy as sp
    A, y, L, dt = _problem(a)
    kind, lam = a["g"], float(a.get("lam", 0.1))
    prox = _prox_np(kind, lam)
    m, n = A.shape
    xs = _ref_min(A, y, L, kind, lam, dt)
    us = A @ xs - y           # dual optimum of f(v)=0.5|v-y|^2 : u* = grad f(A x*)
    nrm = np.sqrt(L)
    arr = bool(a.get("array_steps"))
    tau = (0.9 / nrm) * (np.ones(n) if arr else 1.0)
    sigma = (1.0 / nrm) * (np.ones(m) if arr else 1.0)
    if arr:
        rs = np.random.RandomState(5)
        w = rs.uniform(0.5, 1.0, n)
        tau = tau * w
    if a.get("sigma_ratio"):
        # array-valued dual steps of very different size: the accelerated variants must use the SMALLEST one
        sigma = (1.0 / nrm) * np.geomspace(1.0 / float(a["sigma_ratio"]), 1.0, m)
    proxfc = lambda s, v: (v - s * y) / (1 + s)        # prox of sigma f*, f* = 0.5|u|^2 + <u,y>
    gp, gd = float(a.get("gamma_primal", 0)), float(a.get("gamma_dual", 0))
    bad = []
    # saddle point is fixed
    x, u = xs.copy(), us.copy()
    alg = sp.alg.PrimalDualHybridGradient(proxfc, prox, lambda v: A @ v, lambda v: A.conj().T @ v, x, u, np.copy(tau), np.copy(sigma), max_iter=3, tol=-1)
    for _ in range(3):
        alg.update()
    if np.linalg.norm(alg.x - xs) > 1e-6 * max(1, np.linalg.norm(xs)) or np.linalg.norm(alg.u - us) > 1e-6 * max(1, np.linalg.norm(us)):
        bad.append("saddle point moved: dx=%g du=%g" % (np.linalg.norm(alg.x - xs), np.linalg.norm(alg.u - us)))
    # convergence + in place + Fejer
    x, u = np.zeros(n, dt), np.zeros(m, dt)
    xo, uo = x, u
    iters = int(a.get("iters", 3000))
    alg = sp.alg.PrimalDualHybridGradient(proxfc, prox, lambda v: A @ v, lambda v: A.conj().T @ v, x, u, np.copy(tau), np.copy(sigma),
                                          gamma_primal=gp, gamma_dual=gd, max_iter=iters, tol=-1)
    def M2(da, db):
        return float(np.sum(np.abs(da) ** 2 / tau) + np.sum(np.abs(db) ** 2 / sigma) - 2 * np.real(np.vdot(A @ da, db)))
    prev = None
    k = 0
    while not alg.done():
        alg.update()
        k += 1
        if alg.x is not xo or alg.u is not uo:
            bad.append("x/u rebound at update %d" % k)
            break
        if gp == 0 and gd == 0 and k <= 200:
            V = M2((2 * alg.x - alg.x_ext) - xs, alg.u - us)
            if prev is not None and V > prev * (1 + 1e-9) + 1e-10:
                bad.append("step-size-weighted distance to the saddle point increased at update %d: %g -> %g" % (k, prev, V))
                break
            prev = V
    err = np.linalg.norm(alg.x - xs) / max(1e-12, np.linalg.norm(xs))
    if not bad and err > float(a.get("tol", 1e-3)):
        bad.append("did not converge to the minimiser: relative error %g after %d updates" % (err, k))
    return dict(reproduced=bool(bad), detail="; ".join(bad) or "all clauses hold", updates=k)


# ----------------------------------------------------------------------------- C15 stopping
def _earlystop(a):
    import sigpy as sp
    kind = a["scenario"]
    if kind == "gm_accelerated_box":
        x = np.array([float(a.get("x0", -100.0))])
        alg = sp.alg.GradientMethod(lambda z: z - 0.99, x, float(a.get("alpha", 0.01)), proxg=lambda al, v: np.minimum(v, 1.0),
                                    accelerate=bool(a.get("accelerate", True)), max_iter=10000, tol=0)
    elif kind == "gm_plain_box":
        x = np.array([-100.0])
        alg = sp.alg.GradientMethod(lambda z: z - 0.99, x, 0.01, proxg=lambda al, v: np.minimum(v, 1.0), accelerate=False, max_iter=3000, tol=0)
    elif kind == "pdhg_l1_zero_init":
        rs = np.random.RandomState(0)
        A = rs.standard_normal((6, 4))
        y = rs.standard_normal(6)
        lam = 0.1
        x, u = np.zeros(4), np.zeros(6)
        sig = float(a.get("sigma", 0.01))
        alg = sp.alg.PrimalDualHybridGradient(lambda s, v: (v - s * y) / (1 + s),
                                              lambda t, v: np.sign(v) * np.maximum(np.abs(v) - t * lam, 0),
                                              lambda v: A @ v, lambda v: A.T @ v, x, u, 0.05, sig, max_iter=5000, tol=0)
    elif kind == "cg_exact":
        A = np.diag([1.0, 2.0, 3.0])
        b = np.array([1.0, 2.0, 3.0])
        x = np.zeros(3)
        alg = sp.alg.ConjugateGradient(lambda v: A @ v, b, x, max_iter=50, tol=0)
    else:
        return dict(reproduced=False, detail="unknown scenario")
    k = 0
    while not alg.done():
        alg.update()
        k += 1
    if alg.iter >= alg.max_iter:
        return dict(reproduced=False, detail="ran to max_iter (%d updates)" % k)
    before = np.array(alg.x, copy=True)
    more = int(a.get("further_updates", 1))
    moved, j = 0.0, 0
    with np.errstate(all="ignore"):
        for j in range(1, more + 1):
            alg.update()
            after = np.array(alg.x, copy=True)
            if not np.all(np.isfinite(after)):
                return dict(reproduced=False, detail="further update after an exact solve is degenerate (0/0); x reached the solution", updates=k)
            moved = float(np.max(np.abs(after - before)))
            if moved > 1e-9:
                break
    return dict(reproduced=moved > 1e-9, updates=k,
                detail="stopped with tol=0 after %d of %d updates at x=%s although the state was not a fixed point: %d further update(s) move x by %g" % (
                    k, alg.max_iter, np.round(before, 6).tolist(), j, moved)
                if moved > 1e-9 else "stopped after %d updates at a fixed point" % k)


def _gs_counter(a):
    import sigpy as sp
    rs = np.random.RandomState(0)
    n = 6
    A = sp.linop.MatMul([n, 1], rs.standard_normal((8, n)) + 1j * rs.standard_normal((8, n)))
    xt = rs.standard_normal((n, 1)) + 1j * rs.standard_normal((n, 1))
    y = np.abs(A * xt)
    mi = int(a.get("max_iter", 6))
    alg = sp.alg.GerchbergSaxton(A, y, np.ones((n, 1), dtype=complex), max_iter=mi, tol=-1)
    k = 0
    while not alg.done():
        alg.update()
        k += 1
    bad = []
    if k != mi:
        bad.append("performed %d updates for max_iter=%d with tol unreachable" % (k, mi))
    if alg.iter != k:
        bad.append("iteration counter is %d after %d updates" % (alg.iter, k))
    return dict(reproduced=bool(bad), detail="; ".join(bad) or "counter advances by one per update")


def _mk_alg(name, max_iter, rs):
    import sigpy as sp
    n = 4
    M = rs.standard_normal((n, n))
    A = M @ M.T + np.eye(n)
    b = rs.standard_normal(n)
    x = np.zeros(n)
    if name == "PowerMethod":
        return sp.alg.PowerMethod(lambda v: A @ v, rs.standard_normal(n), max_iter=max_iter), A
    if name == "GradientMethod":
        return sp.alg.GradientMethod(lambda v: A @ v - b, x, 1 / np.linalg.norm(A, 2), max_iter=max_iter, tol=0), A
    if name == "GradientMethodAcc":
        return sp.alg.GradientMethod(lambda v: A @ v - b, x, 1 / np.linalg.norm(A, 2), accelerate=True, max_iter=max_iter, tol=0), A
    if name == "ConjugateGradient":
        return sp.alg.ConjugateGradient(lambda v: A @ v, b, x, max_iter=max_iter, tol=0), A
    if name == "PrimalDualHybridGradient":
        return sp.alg.PrimalDualHybridGradient(lambda s, v: (v - s * b) / (1 + s), lambda t, v: v, lambda v: A @ v, lambda v: A.T @ v,
                                               x, np.zeros(n), 0.1, 0.1, max_iter=max_iter, tol=0), A
    if name == "AltMin":
        st = {"k": 0}
        return sp.alg.AltMin(lambda: st.__setitem__("k", st["k"] + 1), lambda: None, max_iter=max_iter), A
    if name == "ADMM":
        z, u = np.zeros(n), np.zeros(n)
        def mx():
            x[:] = np.linalg.solve(A + np.eye(n), b + z - u)
        def mz():
            z[:] = x + u
        return sp.alg.ADMM(mx, mz, x, z, u, lambda v: v, lambda v: -v, 0, max_iter=max_iter), A
    if name == "AugmentedLagrangianMethod":
        u, v = np.zeros(1), np.zeros(1)
        def minL():
            x[:] = np.linalg.solve(A, b)
        return sp.alg.AugmentedLagrangianMethod(minL, None, lambda xx: np.array([xx[0]]), x, u, v, 1.0, max_iter=max_iter), A
    if name == "NewtonsMethod":
        Ai = np.linalg.inv(A)
        return sp.alg.NewtonsMethod(lambda v: A @ v - b, lambda v: (lambda g: Ai @ g), x, max_iter=max_iter, tol=0), A
    if name == "GerchbergSaxton":
        Aop = sp.linop.MatMul([n, 1], M + 0j)
        y = np.abs(Aop * (rs.standard_normal((n, 1)) + 0j))
        return sp.alg.GerchbergSaxton(Aop, y, np.ones((n, 1), dtype=complex), max_iter=max_iter, tol=-1), A
    raise ValueError(name)


def _loop(a):
    rs = np.random.RandomState(int(a.get("seed", 0)))
    name, mi, pattern = a["cls"], int(a["max_iter"]), a.get("pattern", "canonical")
    alg, A = _mk_alg(name, mi, rs)
    bad = []
    k = 0
    last_iter = alg.iter
    for step in range(mi + 3):
        d = alg.done()
        if pattern == "double_done":
            d = alg.done() and d
        if d:
            break
        with np.errstate(all="ignore"):
            alg.update()
        k += 1
        if alg.iter != last_iter + 1:
            bad.append("counter went %d -> %d on update %d" % (last_iter, alg.iter, k))
            break
        last_iter = alg.iter
    if k > mi:
        bad.append("%d updates for max_iter=%d" % (k, mi))
    if name in ("AltMin", "ADMM", "AugmentedLagrangianMethod", "PowerMethod", "GerchbergSaxton") and k != mi:
        bad.append("counter-only stopping performed %d updates for max_iter=%d" % (k, mi))
    return dict(reproduced=bool(bad), detail="; ".join(bad) or "ok", updates=k)


def _power(a):
    import sigpy as sp
    rs = np.random.RandomState(int(a.get("seed", 0)))
    n, cplx = int(a["n"]), bool(a["complex"])
    M = rs.standard_normal((n, n)) + (1j * rs.standard_normal((n, n)) if cplx else 0)
    A = M @ M.conj().T
    lam = float(np.max(np.linalg.eigvalsh(A)))
    x = (rs.standard_normal(n) + (1j * rs.standard_normal(n) if cplx else 0)).astype(A.dtype)
    alg = sp.alg.PowerMethod(lambda v: A @ v, x, max_iter=40)
    est = []
    while not alg.done():
        alg.update()
        est.append(alg.max_eig)
    bad = []
    for i in range(2, len(est)):
        if est[i] < est[i - 1] * (1 - 1e-12):
            bad.append("estimate decreased at update %d: %g -> %g" % (i + 1, est[i - 1], est[i]))
            break
    if max(est[1:]) > lam * (1 + 1e-10):
        bad.append("estimate %g exceeds the largest eigenvalue %g" % (max(est[1:]), lam))
    return dict(reproduced=bool(bad), detail="; ".join(bad) or "ok")


# ----------------------------------------------------------------------------- C01-C04 operators
def _linop(a):
    import linop_native as LN
    rs = np.random.RandomState(int(a.get("seed", 0)))
    cls, v, m = a["cls"], dict(a["v"]), dict(a.get("model", {}))
    for k in list(v):
        if isinstance(v[k], list):
            v[k] = tuple(v[k])
    props = set(a["props"])
    try:
        A = LN.mk(cls, v, m, rs)
    except Exception as e:
        if a.get("may_reject"):
            return dict(reproduced=False, detail="constructor rejected the parameters: %s" % e)
        return dict(reproduced=True, detail="constructor raised %s: %s for valid parameters" % (type(e).__name__, str(e)[:200]))
    try:
        bad = LN.check(A, props, rs)
        if "C03" in props:
            bad += LN.check_algebra(A, cls, v)
    except Exception as e:
        return dict(reproduced=True, detail="%s raised during apply/adjoint: %s" % (type(e).__name__, str(e)[:300]))
    return dict(reproduced=bool(bad), detail="; ".join(bad) or "all clauses hold", op=repr(A))


def _frame(a):
    import frame_native as FN
    name = a.get("function")
    # map a method/function name from the static analysis onto the table of sample calls
    n, bad = FN.check(name=name, seed=int(a.get("seed", 0)))
    if n == 0:
        n, bad = FN.check(name=".".join(name.split(".")[:-1]) if name else None, seed=int(a.get("seed", 0)))
    return dict(reproduced=bool(bad), detail="; ".join(bad[:3]) or ("%d sample calls leave their arguments unchanged" % n), calls=n)


def _stack_params(a):
    import sigpy as sp
    fn = getattr(sp.linop, a["which"])
    shapes, axis = [list(s) for s in a["shapes"]], a["axis"]
    rank = len(shapes[0])
    axn = axis % rank
    compat = all(s[d] == shapes[0][d] for s in shapes[1:] for d in range(rank) if d != axn)
    try:
        shape, idx = fn(shapes, axis)
    except Exception as e:
        return dict(reproduced=compat, detail="raised %s: %s for %s operands %s axis %d" % (type(e).__name__, e, "compatible" if compat else "incompatible", shapes, axis))
    if not compat:
        return dict(reproduced=True, detail="accepted incompatible operands %s along axis %d" % (shapes, axis))
    want_shape = [sum(s[d] for s in shapes) if d == axn else shapes[0][d] for d in range(rank)]
    want_idx = list(np.cumsum([s[axn] for s in shapes])[:-1])
    ok = list(shape) == want_shape and [int(i) for i in idx] == [int(i) for i in want_idx]
    return dict(reproduced=not ok, detail="shape %s indices %s, expected %s %s" % (list(shape), list(idx), want_shape, want_idx))


def _reject(a):
    import sigpy as sp
    L = sp.linop
    A, B = L.Resize([a["a"]], [a["b"]]), L.Resize([a["c"]], [a["d"]])
    kind = a["kind"]
    fits = {"compose": a["b"] == a["c"], "add": a["a"] == a["c"] and a["b"] == a["d"], "apply": a["b"] == a["c"]}.get(kind, False)
    R = lambda o, i: L.Resize(o, i)
    try:
        if kind == "compose":
            L.Compose([A, B])
        elif kind == "add":
            L.Add([A, B])
        elif kind == "apply":
            A.apply(np.zeros([a["c"]]))
        elif kind == "add-rank-o":
            L.Add([R([a["a"], a["b"]], [a["c"]]), R([a["d"]], [a["c"]])])
        elif kind == "add-rank-i":
            L.Add([R([a["c"]], [a["a"], a["b"]]), R([a["c"]], [a["d"]])])
        elif kind == "hstack-rank":
            L.Hstack([R([a["a"], a["b"]], [a["c"]]), R([a["d"]], [a["c"]])], axis=0)
        elif kind == "vstack-rank":
            L.Vstack([R([a["c"]], [a["a"], a["b"]]), R([a["c"]], [a["d"]])], axis=0)
        elif kind == "compose-rank":
            L.Compose([R([a["a"]], [a["b"], a["c"]]), R([a["d"]], [a["a"]])])
        ok = True
    except Exception:
        ok = False
    return dict(reproduced=ok != fits, detail="%s %s although the shapes %s" % (kind, "accepted" if ok else "rejected", "fit" if fits else "do not fit"))


# ----------------------------------------------------------------------------- C11 proximal operators
def _obj_min_check(P, g, alpha, y, rs, feasible=None, ntry=200, tol=1e-9):
    """p = P(alpha, y) must not be beaten by random candidates x: 0.5|x-y|^2 + alpha g(x) >= value at p (- tol)"""
    p = P(alpha, y.copy())
    bad = []
    if np.shape(p) != np.shape(y):
        return ["output shape %s != input shape %s" % (np.shape(p), np.shape(y))], p
    if not np.all(np.isfinite(p)):
        return ["non-finite output"], p
    f = lambda x: 0.5 * float(np.sum(np.abs(x - y) ** 2)) + alpha * g(x)
    fp = f(p)
    if not np.isfinite(fp):
        bad.append("output is infeasible (objective infinite)")
        return bad, p
    scale = max(1.0, abs(fp))
    for i in range(ntry):
        step = 10.0 ** rs.uniform(-6, 0)
        d = rs.standard_normal(y.shape) + (1j * rs.standard_normal(y.shape) if np.iscomplexobj(y) else 0)
        x = p + step * d
        if feasible is not None:
            x = feasible(x)
        fx = f(x)
        if fx < fp - tol * scale:
            bad.append("candidate beats the returned point: %.12g < %.12g" % (fx, fp))
            break
    return bad, p


def _prox(a):
    import sigpy as sp
    P = sp.prox
    rs = np.random.RandomState(int(a.get("seed", 0)))
    kind, shape, cplx = a["kind"], tuple(a["shape"]), bool(a.get("complex", True))
    alpha = float(a.get("alpha", 0.7))
    y = rs.standard_normal(shape) + (1j * rs.standard_normal(shape) if cplx else 0)
    y = y.astype(np.complex128 if cplx else np.float64)
    special = a.get("special")
    lam, eps = float(a.get("lam", 0.4)), float(a.get("eps", 0.9))
    if special == "zeros":
        y = np.zeros_like(y)
    elif special == "on-threshold":
        y = y / np.maximum(np.abs(y), 1e-30) * (lam * alpha)
        y.flat[0] = 0
    elif special == "feasible":
        y = y * (0.1 * eps / max(1e-30, np.sum(np.abs(y))))
    elif special == "boundary":
        y = y * (eps / max(1e-30, np.linalg.norm(y)))
    inf = float("inf")
    bias = (rs.standard_normal(shape) + (1j * rs.standard_normal(shape) if cplx else 0)).astype(y.dtype) if a.get("bias") else None
    if kind == "L1Reg":
        op, g, feas = P.L1Reg(shape, lam), (lambda x: lam * float(np.sum(np.abs(x)))), None
    elif kind == "L2Reg":
        z = bias
        op = P.L2Reg(shape, lam, y=z)
        g, feas = (lambda x: lam / 2 * float(np.sum(np.abs(x - (0 if z is None else z)) ** 2))), None
    elif kind == "L2Reg+l1":
        z = bias
        op = P.L2Reg(shape, lam, y=z, proxh=P.L1Reg(shape, 0.3))
        g, feas = (lambda x: lam / 2 * float(np.sum(np.abs(x - (0 if z is None else z)) ** 2)) + 0.3 * float(np.sum(np.abs(x)))), None
    elif kind == "L2Proj":
        b = 0 if bias is None else bias
        axes = a.get("axes")
        op = P.L2Proj(shape, eps, y=b, axes=axes)
        ax = tuple(range(len(shape))) if axes is None else tuple(axes)
        nrm = lambda x: np.sqrt(np.sum(np.abs(x - b) ** 2, axis=ax, keepdims=True))
        g = lambda x: 0.0 if np.all(nrm(x) <= eps * (1 + 1e-9)) else inf
        feas = lambda x: b + (x - b) * np.minimum(1, eps / np.maximum(nrm(x), 1e-30))
    elif kind == "LInfProj":
        b = 0 if bias is None else bias
        op = P.LInfProj(shape, eps, bias=bias)
        g = lambda x: 0.0 if np.all(np.abs(x - b) <= eps * (1 + 1e-9)) else inf
        feas = lambda x: b + (x - b) * np.minimum(1, eps / np.maximum(np.abs(x - b), 1e-30))
    elif kind == "L1Proj":
        op = P.L1Proj(shape, eps)
        g = lambda x: 0.0 if np.sum(np.abs(x)) <= eps * (1 + 1e-9) else inf
        feas = lambda x: x * min(1.0, eps / max(1e-30, float(np.sum(np.abs(x)))))
    elif kind == "Box":
        y = y.real.astype(np.float64)
        if a.get("int_input"):
            y = np.round(3 * y).astype(np.int64)          # an integer-dtype input with fractional bounds (the unit test's own dtype)
        op = P.BoxConstraint(shape, -0.3, 0.5)
        g = lambda x: 0.0 if np.all((x >= -0.3 - 1e-12) & (x <= 0.5 + 1e-12)) else inf
        feas = lambda x: np.clip(x.real, -0.3, 0.5)
    elif kind == "Conj(L1)":
        op = P.Conj(P.L1Reg(shape, lam))           # conjugate of lam|.|_1 is the indicator of |x|_inf <= lam
        g = lambda x: 0.0 if np.all(np.abs(x) <= lam * (1 + 1e-9)) else inf
        feas = lambda x: x * np.minimum(1, lam / np.maximum(np.abs(x), 1e-30))
    elif kind == "Stack":
        n = int(np.prod(shape))
        y = y.ravel()
        n1 = n // 2
        op = P.Stack([P.L1Reg([n1], lam), P.L2Reg([n - n1], 0.6)])
        g = lambda x: lam * float(np.sum(np.abs(x[:n1]))) + 0.3 * float(np.sum(np.abs(x[n1:]) ** 2))
        feas = None
    elif kind == "Unitary(FFT,L1)":
        A = sp.linop.FFT(shape)
        op = P.UnitaryTransform(P.L1Reg(shape, lam), A)
        g, feas = (lambda x: lam * float(np.sum(np.abs(A(x.astype(np.complex128)))))), None
    elif kind == "PsdProj":
        n = shape[0]
        Q, _ = np.linalg.qr(rs.standard_normal((n, n)) + (1j * rs.standard_normal((n, n)) if cplx else 0))
        w = np.array(a.get("eigs", [1, 1, 1, -1][:n] + [0.5] * max(0, n - 4)), dtype=float)[:n]
        y = (Q * w) @ Q.conj().T
        op = P.PsdProj([n, n])
        want = (Q * np.maximum(w, 0)) @ Q.conj().T
        p = op(alpha, y.copy())
        err = float(np.max(np.abs(p - want)))
        return dict(reproduced=err > 1e-8, detail="PSD projection differs from Q max(w,0) Q^H by %g (eigenvalues %s)" % (err, w.tolist()))
    else:
        return dict(reproduced=False, detail="unknown kind")
    try:
        bad, p = _obj_min_check(op, g, alpha, y, rs, feasible=feas)
    except Exception as e:
        return dict(reproduced=True, detail="prox raised %s: %s" % (type(e).__name__, (str(e.__cause__) or str(e))[:150]))
    if feas is not None and not bad:
        # projections: idempotent, feasible input returned unchanged
        p2 = op(alpha, np.array(p, copy=True))
        if np.max(np.abs(p2 - p)) > 1e-9 * max(1, np.max(np.abs(p))):
            bad.append("projection is not idempotent (changes by %g)" % np.max(np.abs(p2 - p)))
        if g(y) == 0.0 and np.max(np.abs(p - y)) > 1e-12:
            bad.append("feasible input was changed by %g" % np.max(np.abs(p - y)))
    return dict(reproduced=bool(bad), detail="; ".join(bad) or "minimiser, shape, idempotence hold")


# ----------------------------------------------------------------------------- C14 LinearLeastSquares
def _lls(a):
    import sigpy as sp
    rs = np.random.RandomState(int(a.get("seed", 0)))
    cplx = bool(a.get("complex", False))
    n, m = 4, 6
    dt = np.complex128 if cplx else np.float64
    rnd = lambda *s: (rs.standard_normal(s) + (1j * rs.standard_normal(s) if cplx else 0)).astype(dt)
    if a.get("A") == "identity":
        A = sp.linop.Identity([n])
        Am = np.eye(n)
        m = n
    elif a.get("A") == "reshape":
        A = sp.linop.Reshape([n], [n // 2, 2]) * sp.linop.Reshape([n // 2, 2], [n])
        Am = np.eye(n)
        m = n
    else:
        Am = rnd(m, n)
        A = sp.linop.MatMul([n, 1], Am)
    dense = a.get("A") not in ("identity", "reshape")
    shape_x = [n, 1] if dense else [n]
    y = rnd(m, 1) if dense else rnd(m)
    lam = float(a.get("lam", 0.0))
    z = (rnd(*shape_x) if a.get("z") else None)
    gk = a.get("g")
    Gk = a.get("G")
    if Gk == "dense":
        Gm = rnd(5, n)
        G = sp.linop.MatMul(shape_x, Gm) if dense else sp.linop.Reshape([5], [5, 1]) * sp.linop.MatMul([n, 1], Gm) * sp.linop.Reshape([n, 1], [n])
    elif Gk == "fd":
        G = sp.linop.FiniteDifference(shape_x, axes=[0])
        Gm = np.eye(n) - np.roll(np.eye(n), 1, axis=0)
    elif Gk == "square":
        Gm = rnd(n, n)
        G = sp.linop.MatMul(shape_x, Gm) if dense else None
    else:
        G, Gm = None, np.eye(n)
    w = 0.3
    if gk == "l1":
        proxg = sp.prox.L1Reg(G.oshape if G is not None else shape_x, w)
        gval = lambda v: w * float(np.sum(np.abs(v)))
        prox_np = lambda t, v: v / np.maximum(np.abs(v), 1e-300) * np.maximum(np.abs(v) - t * w, 0)
    elif gk == "l2":
        proxg = sp.prox.L2Reg(G.oshape if G is not None else shape_x, w)
        gval = lambda v: w / 2 * float(np.sum(np.abs(v) ** 2))
        prox_np = lambda t, v: v / (1 + t * w)
    elif gk == "box":
        proxg = sp.prox.BoxConstraint(G.oshape if G is not None else shape_x, -0.2, 0.3)
        gval = lambda v: 0.0 if np.all((v.real >= -0.2 - 1e-7) & (v.real <= 0.3 + 1e-7)) else np.inf
        prox_np = lambda t, v: np.clip(v.real, -0.2, 0.3).astype(v.dtype)
    else:
        proxg, gval, prox_np = None, (lambda v: 0.0), (lambda t, v: v)
    yv = y.ravel()
    zv = None if z is None else z.ravel()

    def F(x):
        xv = np.asarray(x).ravel()
        f = 0.5 * float(np.linalg.norm(Am @ xv - yv) ** 2)
        if proxg is not None:
            f += gval(Gm @ xv if G is not None else xv)
        if lam > 0:
            f += lam / 2 * float(np.linalg.norm(xv - (0 if zv is None else zv)) ** 2)
        return f
    # reference optimum by a long ADMM run in plain numpy on  min f(x) + g(v), v = Gx
    rho = 1.0
    xr = np.zeros(n, dt)
    v = np.zeros(Gm.shape[0], dt)
    u = np.zeros_like(v)
    H = Am.conj().T @ Am + lam * np.eye(n) + rho * Gm.conj().T @ Gm
    Hi = np.linalg.inv(H)
    for _ in range(int(a.get('ref_iters', 5000))):
        rhs = Am.conj().T @ yv + (lam * zv if zv is not None else 0) + rho * Gm.conj().T @ (v - u)
        xr = Hi @ rhs
        v = prox_np(1 / rho, Gm @ xr + u) if proxg is not None else Gm @ xr + u
        u = u + Gm @ xr - v
    if proxg is None:
        xr = np.linalg.solve(Am.conj().T @ Am + lam * np.eye(n) + 1e-300 * np.eye(n), Am.conj().T @ yv + (lam * zv if zv is not None else 0)) if (lam > 0 or np.linalg.matrix_rank(Am) == n) else xr
    Fref = F(xr if gk != "box" or G is None else xr)
    solver = a.get("solver")
    kw = dict(proxg=proxg, lamda=lam, G=G, z=z, solver=solver, show_pbar=False, max_iter=int(a.get("max_iter", 2500)))
    if solver == "ADMM":
        kw["max_iter"] = 600
        kw["max_cg_iter"] = 30
        if a.get("rho") is not None:
            kw["rho"] = float(a["rho"])
            kw["max_iter"] = 1500
    if a.get("x0"):
        kw["x"] = np.zeros(shape_x, dt)
    y0, z0 = y.copy(), (None if z is None else z.copy())
    try:
        app = sp.app.LinearLeastSquares(A, y, **kw)
        x = app.run()
    except Exception as e:
        return dict(reproduced=bool(a.get("must_work", True)), detail="raised %s: %s" % (type(e).__name__, str(e)[:200]))
    bad = []
    if not np.array_equal(y, y0):
        bad.append("y was modified (max change %g)" % float(np.max(np.abs(y - y0))))
    if z is not None and not np.array_equal(z, z0):
        bad.append("z was modified")
    if not np.all(np.isfinite(x)):
        bad.append("non-finite solution")
    else:
        Fx = F(x)
        tol = float(a.get("tol", 2e-3))
        if gk == "box" and not np.isfinite(Fx):
            xv = np.asarray(x).ravel()
            viol = float(np.max(np.maximum((Gm @ xv if G is not None else xv).real - 0.3, -0.2 - (Gm @ xv if G is not None else xv).real)))
            if viol > 1e-3:
                bad.append("solution violates the box by %g" % viol)
        elif Fx > Fref + tol * max(1.0, abs(Fref)):
            bad.append("objective %.8g exceeds the optimum %.8g (relative gap %.3g)" % (Fx, Fref, (Fx - Fref) / max(1.0, abs(Fref))))
    return dict(reproduced=bool(bad), detail="; ".join(bad) or "optimal within tolerance, inputs untouched")


# ----------------------------------------------------------------------------- C05 fft
def _dft_matrix(n, center, inverse, norm):
    c = n // 2 if center else 0
    j = np.arange(n) - c
    W = np.exp((2j if inverse else -2j) * np.pi * np.outer(j, j) / n)
    if norm == "ortho":
        W = W / np.sqrt(n)
    elif inverse:
        W = W / n
    return W


def _fft(a):
    import sigpy as sp
    from specs_np import spec_resize
    rs = np.random.RandomState(int(a.get("seed", 0)))
    shape, axes, center, norm = tuple(a["shape"]), a.get("axes"), bool(a.get("center", True)), a.get("norm", "ortho")
    inverse, oshape, dtype = bool(a.get("inverse")), a.get("oshape"), np.dtype(a.get("dtype", "complex128"))
    x = rs.standard_normal(shape) + (1j * rs.standard_normal(shape) if dtype.kind == "c" else 0)
    x = x.astype(dtype)
    x0 = x.copy()
    f = sp.ifft if inverse else sp.fft
    got = f(x, oshape=oshape, axes=axes, center=center, norm=norm)
    bad = []
    if not np.array_equal(x, x0):
        bad.append("input modified")
    want_dt = dtype if dtype.kind == "c" else np.dtype("complex64")
    if got.dtype != want_dt:
        bad.append("dtype %s, expected %s" % (got.dtype, want_dt))
    ref = x.astype(np.complex128)
    if oshape is not None:
        ref = spec_resize(ref, oshape)
    nd = ref.ndim
    ax = range(nd) if axes is None else sorted(set(q % nd for q in axes))
    for d in ax:
        W = _dft_matrix(ref.shape[d], center, inverse, norm)
        ref = np.moveaxis(np.tensordot(W, ref, axes=([1], [d])), 0, d)
    tol = 1e-4 if want_dt == np.dtype("complex64") else 1e-9
    if got.shape != ref.shape or np.max(np.abs(got - ref)) > tol * max(1.0, np.max(np.abs(ref))):
        bad.append("differs from the DFT-matrix definition by %g" % (np.max(np.abs(got - ref)) if got.shape == ref.shape else -1))
    if norm == "ortho" and oshape is None:
        g2 = (sp.fft if inverse else sp.ifft)(got, axes=axes, center=center, norm=norm)
        if np.max(np.abs(g2 - x)) > 10 * tol * max(1, np.max(np.abs(x))):
            bad.append("ifft(fft(x)) != x (%g)" % np.max(np.abs(g2 - x)))
        if abs(np.linalg.norm(got) - np.linalg.norm(x)) > 10 * tol * max(1, np.linalg.norm(x)):
            bad.append("norm not preserved")
    return dict(reproduced=bool(bad), detail="; ".join(bad) or "matches the centred DFT definition")


def _app_run(a):
    import sigpy as sp
    bad = []
    for mi in range(0, 4):
        for pbar in (False, True):
            x = np.zeros(3)
            alg = sp.alg.GradientMethod(lambda v: v - 1.0, x, 0.5, max_iter=mi, tol=-1)
            calls = {"u": 0}
            orig = alg.update

            def upd(orig=orig):
                calls["u"] += 1
                orig()
            alg.update = upd
            app = sp.app.App(alg, show_pbar=pbar)
            app.run()
            if calls["u"] != mi or alg.iter != mi:
                bad.append("App.run performed %d updates (iter=%d) for max_iter=%d, show_pbar=%s" % (calls["u"], alg.iter, mi, pbar))
    return dict(reproduced=bool(bad), detail="; ".join(bad[:3]) or "App.run performs exactly max_iter updates")


# ----------------------------------------------------------------------------- C07 interpolate / gridding
_AS1 = [1, 3.5156229, 3.0899424, 1.2067492, 0.2659732, 0.0360768, 0.0045813]
_AS2 = [0.39894228, 0.01328592, 0.00225319, -0.00157565, 0.00916281, -0.02057706, 0.02635537, -0.01647633, 0.00392377]


def _ref_kernel(kind, x, p):
    ax = abs(x)
    if ax > 1:
        return 0.0
    if kind == "spline":
        o = int(p)
        if o == 0:
            return 1.0
        if o == 1:
            return 1 - ax
        t = 1.5 * ax
        return 0.75 - t * t if t <= 0.5 else 0.5 * (1.5 - t) ** 2
    u = p * np.sqrt(1 - x * x)
    t = u / 3.75
    if u < 3.75:
        return float(sum(c * t ** (2 * i) for i, c in enumerate(_AS1)))
    return float(u ** -0.5 * np.exp(u) * sum(c * t ** (-i) for i, c in enumerate(_AS2)))


def _interp(a):
    import itertools
    import sigpy as sp
    rs = np.random.RandomState(int(a.get("seed", 0)))
    grid, batch = list(a["grid"]), list(a.get("batch", []))
    D = len(grid)
    kind = a.get("kernel", "spline")
    width, param = a.get("width", 2.5), a.get("param", 1)
    coords = np.array(a["coord"], dtype=float).reshape(-1, D) if "coord" in a else rs.uniform(-max(grid), 2 * max(grid), size=(int(a.get("npts", 5)), D))
    if a.get("special") == "half-integers":
        coords = np.round(coords * 2) / 2
    elif a.get("special") == "integers":
        coords = np.round(coords)
    elif a.get("special") == "duplicates":
        coords[1:] = coords[0]
    W = [float(width)] * D if np.isscalar(width) else [float(w) for w in width]
    Pm = [param] * D if np.isscalar(param) else list(param)
    x = rs.standard_normal(batch + grid) + 1j * rs.standard_normal(batch + grid)
    npts = coords.shape[0]
    want = np.zeros(batch + [npts], dtype=complex)
    wgrid = np.zeros(batch + grid, dtype=complex)
    y = rs.standard_normal(batch + [npts]) + 1j * rs.standard_normal(batch + [npts])
    for j in range(npts):
        rngs = [range(int(np.ceil(coords[j, d] - W[d] / 2)), int(np.floor(coords[j, d] + W[d] / 2)) + 1) for d in range(D)]
        for g in itertools.product(*rngs):
            w = 1.0
            for d in range(D):
                w *= _ref_kernel(kind, (g[d] - coords[j, d]) / (W[d] / 2), Pm[d])
            gi = tuple(g[d] % grid[d] for d in range(D))
            want[..., j] += w * x[(Ellipsis,) + gi]
            wgrid[(Ellipsis,) + gi] += w * y[..., j]
    bad = []
    got = sp.interpolate(x.copy(), coords, kernel=kind, width=width, param=param)
    if got.shape != want.shape or np.max(np.abs(got - want)) > 1e-9 * max(1, np.max(np.abs(want))):
        bad.append("interpolate differs from the documented kernel sum by %g" % (np.max(np.abs(got - want)) if got.shape == want.shape else -1))
    gg = sp.gridding(y.copy(), coords, batch + grid, kernel=kind, width=width, param=param)
    if gg.shape != wgrid.shape or np.max(np.abs(gg - wgrid)) > 1e-9 * max(1, np.max(np.abs(wgrid))):
        bad.append("gridding differs from the transposed kernel sum by %g" % (np.max(np.abs(gg - wgrid)) if gg.shape == wgrid.shape else -1))
    return dict(reproduced=bool(bad), detail="; ".join(bad) or "matches the documented kernel sums")


# ----------------------------------------------------------------------------- C08 convolution
def _conv(a):
    import itertools
    import sigpy as sp
    rs = np.random.RandomState(int(a.get("seed", 0)))
    m, n, mode = list(a["m"]), list(a["n"]), a.get("mode", "full")
    D = len(m)
    s = list(a.get("strides") or [1] * D)
    mc, batch = bool(a.get("mc")), list(a.get("batch", []))
    ci, co = (int(a.get("ci", 2)), int(a.get("co", 3))) if mc else (1, 1)
    cplx = bool(a.get("complex", True))
    rnd = lambda sh: rs.standard_normal(sh) + (1j * rs.standard_normal(sh) if cplx else 0)
    dshape = batch + ([ci] if mc else []) + m
    fshape = ([co, ci] if mc else []) + n
    data, filt = rnd(dshape), rnd(fshape)
    admissible = mode == "full" or all(x >= y for x, y in zip(m, n)) or all(x <= y for x, y in zip(m, n))
    strides_arg = a.get("strides")
    try:
        got = sp.convolve(data.copy(), filt.copy(), mode=mode, strides=strides_arg, multi_channel=mc)
    except Exception as e:
        return dict(reproduced=admissible and mode == "full" or (admissible and all(x >= y for x, y in zip(m, n))),
                    detail="convolve raised %s: %s" % (type(e).__name__, str(e)[:120]))
    if not admissible:
        return dict(reproduced=True, detail="inadmissible shape combination was computed instead of rejected")
    # explicit definition
    d4 = data.reshape([int(np.prod(batch or [1])), ci] + m)
    f4 = filt.reshape([co, ci] + n)
    big = all(x >= y for x, y in zip(m, n))
    if mode == "full":
        L = [x + y - 1 for x, y in zip(m, n)]
        off = [0] * D
    else:
        L = [abs(x - y) + 1 for x, y in zip(m, n)]
        off = [min(x, y) - 1 for x, y in zip(m, n)]
    p = [-(-l // st) for l, st in zip(L, s)]
    want = np.zeros([d4.shape[0], co] + p, dtype=complex)
    for q in itertools.product(*[range(x) for x in p]):
        r = [q[d] * s[d] + off[d] for d in range(D)]
        for t in itertools.product(*[range(x) for x in n]):
            src = [r[d] - t[d] for d in range(D)]
            if all(0 <= src[d] < m[d] for d in range(D)):
                for j in range(co):
                    for i in range(ci):
                        want[(slice(None), j) + q] += d4[(slice(None), i) + tuple(src)] * f4[(j, i) + t]
    want = want.reshape(batch + ([co] if mc else []) + p)
    bad = []
    if got.shape != want.shape or np.max(np.abs(got - want)) > 1e-9 * max(1, np.max(np.abs(want))):
        bad.append("convolve differs from the definition (shape %s vs %s, max dev %g)" % (got.shape, want.shape, np.max(np.abs(got - want)) if got.shape == want.shape else -1))
    else:
        y = rnd(list(want.shape))
        da = sp.convolve_data_adjoint(y.copy(), filt.copy(), dshape, mode=mode, strides=strides_arg, multi_channel=mc)
        fa = sp.convolve_filter_adjoint(y.copy(), data.copy(), fshape, mode=mode, strides=strides_arg, multi_channel=mc)
        if list(da.shape) != dshape or list(fa.shape) != fshape:
            bad.append("adjoint shapes %s / %s, requested %s / %s" % (da.shape, fa.shape, dshape, fshape))
        else:
            l1, r1 = np.vdot(y, got), np.vdot(da, data)
            l2, r2 = np.vdot(y, got), np.vdot(fa, filt)
            if abs(l1 - r1) > 1e-8 * max(1, abs(l1)):
                bad.append("convolve_data_adjoint is not the adjoint w.r.t. data: %s vs %s" % (l1, r1))
            if abs(l2 - r2) > 1e-8 * max(1, abs(l2)):
                bad.append("convolve_filter_adjoint is not the adjoint w.r.t. the filter: %s vs %s" % (l2, r2))
    return dict(reproduced=bool(bad), detail="; ".join(bad) or "definition and both adjoints hold")


# ----------------------------------------------------------------------------- C18 poisson
def _poisson(a):
    import sigpy.mri as mr
    shape = tuple(a["shape"])
    accel, calib = float(a["accel"]), tuple(a.get("calib", (0, 0)))
    tol, cc, seed = float(a.get("tol", 0.1)), bool(a.get("crop_corner", True)), a.get("seed", 0)
    dtype = np.dtype(a.get("dtype", "complex128"))
    np.random.seed(int(a.get("prior_state_seed", 123)))
    before = np.random.get_state()
    bad = []
    try:
        mask = mr.poisson(shape, accel, calib=calib, crop_corner=cc, seed=seed, tol=tol, dtype=dtype)
    except ValueError as e:
        after = np.random.get_state()
        same = all(np.array_equal(x, y) if isinstance(x, np.ndarray) else x == y for x, y in zip(before, after))
        return dict(reproduced=not same, detail=("raised ValueError (allowed): %s" % str(e)[:80]) + ("" if same else "; numpy global RNG state changed"), raised=True)
    after = np.random.get_state()
    if not all(np.array_equal(x, y) if isinstance(x, np.ndarray) else x == y for x, y in zip(before, after)):
        bad.append("numpy global RNG state changed")
    if mask.shape != shape or mask.dtype != dtype:
        bad.append("shape/dtype %s %s" % (mask.shape, mask.dtype))
    m = np.asarray(mask)
    if not np.all((m == 0) | (m == 1)):
        bad.append("mask is not binary")
    ny, nx = shape
    act = nx * ny / max(1e-30, float(np.sum(m.real)))
    if abs(act - accel) >= tol:
        bad.append("acceleration %g not within %g of %g" % (act, tol, accel))
    y0, y1 = int(ny / 2 - calib[-2] / 2), int(ny / 2 + calib[-2] / 2)
    x0, x1 = int(nx / 2 - calib[-1] / 2), int(nx / 2 + calib[-1] / 2)
    blk = m[y0:y1, x0:x1]
    if blk.size and not np.all(blk == 1):
        bad.append("calibration: %d of %d calibration points are not sampled" % (int(np.sum(blk != 1)), blk.size))
    if cc and calib == (0, 0):
        yy, xx = np.mgrid[:ny, :nx]
        rr = ((xx - nx / 2) / (nx / 2)) ** 2 + ((yy - ny / 2) / (ny / 2)) ** 2
        if np.any((m == 1) & (rr >= 1)):
            bad.append("sample outside the inscribed ellipse")
    if seed is not None:
        m2 = mr.poisson(shape, accel, calib=calib, crop_corner=cc, seed=seed, tol=tol, dtype=dtype)
        if not np.array_equal(m2, mask):
            bad.append("same arguments and seed gave a different mask")
    return dict(reproduced=bool(bad), detail="; ".join(bad) or "all clauses hold")


# ----------------------------------------------------------------------------- C19 Bloch simulators / SLR
def _bloch(a):
    import sigpy.mri.rf as rf
    rs = np.random.RandomState(int(a.get("seed", 0)))
    sim, Nt, Ns, d = a["sim"], int(a.get("Nt", 16)), int(a.get("Ns", 9)), int(a.get("d", 1))
    scale = float(a.get("flip", 1.0))
    pulse = (rs.standard_normal(Nt) + 1j * rs.standard_normal(Nt)) * scale / np.sqrt(Nt)
    if a.get("zero"):
        pulse = np.zeros(Nt, dtype=complex)
    if a.get("pad"):
        # RF-free tail / head (gradient rewinder or ramp): exactly zero samples with the gradient still on
        k = max(1, Nt // 3)
        if a["pad"] in ("tail", "both"):
            pulse[-k:] = 0
        if a["pad"] in ("head", "both"):
            pulse[:k] = 0
    bad = []

    def run(p, g=None):
        if sim == "abrm":
            return rf.sim.abrm(p, x1, balanced=bool(a.get("balanced")))
        if sim == "abrm_nd":
            return rf.sim.abrm_nd(p, xd, g)
        if sim == "abrm_hp":
            return rf.sim.abrm_hp(p, g[:, 0], xd[:, 0], dom0dt=float(a.get("dom0dt", 0.05)))
        if sim == "blochsim":
            return rf.optcont.blochsim(p, xd if d > 1 else xd[:, 0], g if d > 1 else g[:, 0])
        if sim == "abrm_ptx":
            dim = 3
            xx, yy = np.meshgrid(np.linspace(-1, 1, dim), np.linspace(-1, 1, dim))
            xs = np.stack([xx.ravel(), yy.ravel()], 1)
            b1 = (rs.standard_normal((2, Nt)) + 1j * rs.standard_normal((2, Nt))) * scale * 1e-3
            if a.get("zero"):
                b1 = b1 * 0
            gg = rs.standard_normal((Nt, 2)) * 5
            out = rf.sim.abrm_ptx(b1, xs, gg, 4e-6, fmap=None, sens=None)
            return out[0].ravel(), out[1].ravel()
    x1 = np.linspace(-4, 4, Ns)
    xd = rs.uniform(-2, 2, size=(Ns, d))
    g = rs.standard_normal((Nt, d))
    al, be = run(pulse, g)
    n = np.abs(al) ** 2 + np.abs(be) ** 2
    if not np.all(np.isfinite(n)) or np.max(np.abs(n - 1)) > 1e-10:
        bad.append("|alpha|^2+|beta|^2 deviates from 1 by %g" % float(np.max(np.abs(n - 1))))
    if a.get("zero"):
        if np.max(np.abs(be)) > 1e-12 or np.max(np.abs(np.abs(al) - 1)) > 1e-10:
            bad.append("zero pulse is not the identity rotation up to phase: max|beta|=%g" % float(np.max(np.abs(be))))
    if sim == "abrm" and a.get("balanced"):
        # balanced = the unbalanced rotation followed by the rewinder (free precession = abrm of a zero pulse at -x/2)
        au, bu = rf.sim.abrm(pulse, x1, balanced=False)
        az, bz_ = rf.sim.abrm(np.zeros(3), -x1 / 2)
        ac = az * au - np.conj(bz_) * bu
        bc = bz_ * au + np.conj(az) * bu
        err = max(np.max(np.abs(ac - al)), np.max(np.abs(bc - be)))
        if err > 1e-6:
            bad.append("balanced abrm differs from the pulse rotation composed with the rewinder rotation by %g" % err)
    if a.get("compose") and sim in ("abrm_nd", "abrm_hp", "blochsim"):
        h = Nt // 2
        a1, b1_ = run(pulse[:h], g[:h])
        a2, b2_ = run(pulse[h:], g[h:])
        # composition of Cayley-Klein parameters: second after first
        ac = a2 * a1 - np.conj(b2_) * b1_
        bc = b2_ * a1 + np.conj(a2) * b1_
        if sim in ("abrm_nd", "blochsim"):
            err = max(np.max(np.abs(ac - al)), np.max(np.abs(bc - be)))
        else:
            err = max(np.max(np.abs(np.abs(ac) - np.abs(al))), np.max(np.abs(np.abs(bc) - np.abs(be))))
        if err > 1e-9:
            bad.append("simulating the concatenation differs from composing the two rotations by %g" % err)
    return dict(reproduced=bool(bad), detail="; ".join(bad) or "unitary / identity / composition hold")


def _slr(a):
    import sigpy.mri.rf as rf
    rs = np.random.RandomState(int(a.get("seed", 0)))
    bad = []
    if a.get("kind") == "dzrf":
        n, tb = int(a.get("n", 64)), float(a.get("tb", 4))
        try:
            pulse = rf.slr.dzrf(n, tb, a.get("ptype", "st"), a.get("ftype", "ls"), 0.01, 0.01)
        except Exception as e:
            return dict(reproduced=False, detail="design raised %s" % e)
        return dict(reproduced=not np.all(np.isfinite(pulse)), detail="finite pulse")
    n = int(a.get("n", 16))
    b = (rs.standard_normal(n) + 1j * rs.standard_normal(n))
    # scale so that max |B(w)| < 1
    w = np.linspace(-np.pi, np.pi, 512, endpoint=False)
    E = np.exp(-1j * np.outer(w, np.arange(n)))
    Bw = E @ b
    b = b / np.max(np.abs(Bw)) * float(a.get("peak", 0.7))
    pulse = rf.slr.b2rf(b)
    # hard-pulse simulation at the same frequencies: x such that phase per sample = w
    x = w / (2 * np.pi) * n
    _, bs = rf.sim.abrm_hp(pulse, np.ones(n) * 2 * np.pi / n, x)       # hard-pulse simulation
    want = np.abs(E @ b)
    err = float(np.max(np.abs(np.abs(bs) - want)))
    if err > float(a.get("tol", 1e-6)):
        bad.append("simulated |beta| differs from |B(w)| by %g" % err)
    return dict(reproduced=bool(bad), detail="; ".join(bad) or "inverse SLR reproduces |B| (max dev %g)" % err)
