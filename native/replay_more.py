"""replay handlers for the remaining properties"""
import numpy as np


def run(req):
    fn = req["fn"]
    a = req.get("args", {})
    if fn in ("trajgrad.trap_grad", "trajgrad.min_trap_grad"):
        return _trap(fn, a)
    if fn == "trajgrad.spokes_grad":
        return _spokes(a)
    return dict(reproduced=False, detail="no replay handler for %s" % fn)


def _trap(fn, a):
    from sigpy.mri.rf import trajgrad
    area, gmax, dgdt, dt = float(a["area"]), float(a["gmax"]), float(a["dgdt"]), float(a["dt"])
    try:
        if fn.endswith("min_trap_grad"):
            trap, ramppts = trajgrad.min_trap_grad(area, gmax, dgdt, dt)
        else:
            trap, ramppts = trajgrad.trap_grad(area, gmax, dgdt, dt)
    except Exception as e:
        return dict(reproduced=True, detail="real code raised %s: %s for positive area/limits" % (type(e).__name__, e))
    t = np.asarray(trap, dtype=float).ravel()
    tol = 1e-9
    bad = []
    if not np.all(np.isfinite(t)):
        bad.append("non-finite samples")
    if abs(t[0]) > tol * gmax or abs(t[-1]) > tol * gmax:
        bad.append("does not start/end at zero")
    if np.max(np.abs(t)) > gmax * (1 + 1e-9):
        bad.append("amplitude %g > gmax %g" % (np.max(np.abs(t)), gmax))
    if len(t) > 1 and np.max(np.abs(np.diff(t))) > dgdt * dt * (1 + 1e-9):
        bad.append("slew step %g > dgdt*dt %g" % (np.max(np.abs(np.diff(t))), dgdt * dt))
    if fn.endswith("min_trap_grad"):
        flat = t[ramppts + 1:len(t) - ramppts - 1]
        if len(flat) < 1 or abs(np.sum(flat) * dt - area) > 1e-9 * area:
            bad.append("flat-top area %g != %g" % (np.sum(flat) * dt, area))
    else:
        if abs(np.sum(t) * dt - area) > 1e-9 * area:
            bad.append("area %g != %g" % (np.sum(t) * dt, area))
    return dict(reproduced=bool(bad), detail="; ".join(bad) or "all clauses hold", n=len(t))


def _spokes(a):
    from sigpy.mri.rf import trajgrad
    k = np.array(a["k"], dtype=float)
    gmax, dgdt, gts = float(a["gmax"]), float(a["dgdtmax"]), float(a["gts"])
    g = trajgrad.spokes_grad(k, float(a["tbw"]), float(a["sl_thick"]), gmax, dgdt, gts)
    bad = []
    if not np.all(np.isfinite(g)):
        bad.append("non-finite samples")
    if np.max(np.abs(g)) > gmax * (1 + 1e-9):
        bad.append("amplitude %g > gmax" % np.max(np.abs(g)))
    if np.max(np.abs(np.diff(g, axis=1))) > dgdt * gts * (1 + 1e-9):
        bad.append("slew step %g > dgdt*dt %g" % (np.max(np.abs(np.diff(g, axis=1))), dgdt * gts))
    if np.max(np.abs(g[:, 0])) > 1e-12 or np.max(np.abs(g[:, -1])) > 1e-12:
        bad.append("does not start/end at zero")
    # k-space increments: after the i-th slice-select lobe the in-plane position moved by k[i+1]-k[i] (k[n] := 0)
    area = float(a["tbw"]) / (float(a["sl_thick"]) / 10) / 4257
    sub, _ = trajgrad.min_trap_grad(area, gmax, dgdt, gts)
    L = np.size(sub)
    kk = np.vstack([k[:, :2], np.zeros((1, 2))])
    for i in range(k.shape[0]):
        for ax in (0, 1):
            moved = np.sum(g[ax, :(i + 1) * L]) * gts * 4257
            want = kk[i + 1, ax] - kk[0, ax]
            if abs(moved - want) > 1e-6 * max(1.0, abs(want)):
                bad.append("spoke %d axis %d moved %g, requested %g" % (i, ax, moved, want))
    return dict(reproduced=bool(bad), detail="; ".join(bad[:4]) or "all clauses hold")
