import itertools


def cases(tier, seed):
    gs = ("none", "l1", "l2sq", "box")
    for g, cplx, acc in itertools.product(gs, (False, True), (False, True)):
        for ill in (False, True):
            yield dict(fn="alg.gm", args=dict(m=6, n=4, complex=cplx, g=g, accelerate=acc, ill=ill, seed=seed, iters=80))
    for g, cplx in itertools.product(gs, (False, True)):
        yield dict(fn="alg.pdhg", args=dict(m=6, n=4, complex=cplx, g=g, seed=seed))
        yield dict(fn="alg.pdhg", args=dict(m=6, n=4, complex=cplx, g=g, seed=seed, array_steps=True))
    yield dict(fn="alg.pdhg", args=dict(m=6, n=4, complex=False, g="l2sq", seed=seed, gamma_primal=0.1, tol=1e-3))
    yield dict(fn="alg.pdhg", args=dict(m=6, n=4, complex=False, g="l1", seed=seed, gamma_dual=1.0, tol=1e-3))
    for g in ("none", "l1"):
        yield dict(fn="alg.pdhg", args=dict(m=8, n=4, complex=False, g=g, seed=seed, gamma_dual=1.0, sigma_ratio=100, iters=10000, tol=5e-3))


def groups(tier, seed):
    yield dict(name="GradientMethod / PrimalDualHybridGradient on small composite problems",
               bound="6x4 dense A (well/ill conditioned), g in {0,l1,l2^2,box}, real/complex, accelerate on/off, scalar and array steps, "
                     "gamma_primal/gamma_dual > 0 (also with array dual steps spanning a factor 100)", cases=cases(tier, seed))
