import itertools
import numpy as np


def groups(tier, seed):
    n = 5 if tier == "quick" else 9
    areas = np.logspace(-6, 0, n)
    gmaxs = np.logspace(-1, 1, 3 if tier == "quick" else 5)
    dgdts = np.logspace(2, 5, 3 if tier == "quick" else 5)
    dts = np.logspace(-6, -4, 3 if tier == "quick" else 5)

    def trap_cases(fn):
        for a, g, s, d in itertools.product(areas, gmaxs, dgdts, dts):
            yield dict(fn=fn, args=dict(area=a, gmax=g, dgdt=s, dt=d))
        # regime boundaries: area == ramppts*dt*gmax exactly, and just around it
        for g, s, d in itertools.product(gmaxs, dgdts, dts):
            r = int(np.ceil(g / s / d))
            for f in (1.0, 1 - 1e-9, 1 + 1e-9, 0.5, 2.0):
                a = r * d * g * f
                if 1e-6 <= a <= 1:
                    yield dict(fn=fn, args=dict(area=a, gmax=g, dgdt=s, dt=d))
    yield dict(name="trap_grad", bound="log grid %dx3x3x3 over the quantified box + regime boundaries" % n, cases=trap_cases("trajgrad.trap_grad"))
    yield dict(name="min_trap_grad", bound="same grid", cases=trap_cases("trajgrad.min_trap_grad"))

    def spoke_cases():
        r = np.random.RandomState(seed)
        sets = [[[0.5, 0.0], [-0.5, 0.3], [0.0, 0.0]], [[0.25, 0.25], [0.25, -0.25], [-0.25, -0.25], [-0.25, 0.25], [0, 0]],
                [[1.0, 0.0], [0.0, 0.0]], [[0.0, 0.0]]]
        for _ in range(4 if tier == "quick" else 12):
            sets.append((r.uniform(-1, 1, size=(r.randint(2, 6), 2))).tolist())
        for k in sets:
            for gts in (4e-6, 1e-5):
                for sl in (5, 10):
                    yield dict(fn="trajgrad.spokes_grad", args=dict(k=[kk + [0.0] for kk in k], tbw=4, sl_thick=sl, gmax=2.0, dgdtmax=18000.0, gts=gts))
    yield dict(name="spokes_grad", bound="fixed + seeded random spoke sets (2..5 spokes), gts in {4e-6,1e-5}, slice 5/10 mm", cases=spoke_cases())
