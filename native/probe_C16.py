import itertools


def sense_cases(tier, seed):
    T = tier != "quick"
    for D, shape in ((2, [5, 4]), (2, [4, 4]), (3, [3, 4, 3])) + (((2, [7, 6]), (3, [4, 3, 5])) if T else ()):
        for Cn in ((1, 3, 4) if T else (3,)):
            for coord, wts in itertools.product((False, True), (False, True)):
                for b in [None] + list(range(1, Cn + 2)):
                    yield dict(fn="mri.sense", args=dict(v=dict(D=D, C=Cn, coord=coord, weights=wts, batch=b), shape=shape, seed=seed))
    for b in (None, 1, 2, 3):
        yield dict(fn="mri.sense", args=dict(v=dict(D=2, C=4, coord=True, weights=True, batch=b, pts_rank=2), shape=[5, 4], seed=seed))
        yield dict(fn="mri.sense", args=dict(v=dict(D=2, C=4, coord=True, weights=False, batch=b, tseg=3), shape=[5, 5], seed=seed))
        yield dict(fn="mri.sense", args=dict(v=dict(D=2, C=4, coord=True, weights=True, batch=b, transp=True, pts_rank=2), shape=[5, 4], seed=seed))


def recon_cases(tier, seed):
    for cls in ("SenseRecon", "TotalVariationRecon", "L1WaveletRecon"):
        for coord, wts, b in itertools.product((False, True), ("none", "given"), (None, 1, 3)):
            for lam in ((0.0, 0.1) if cls == "SenseRecon" else (0.05,)):
                yield dict(fn="mri.recon", args=dict(v=dict(cls=cls, D=2, C=4, coord=coord, weights=wts, batch=b), lam=lam, seed=seed, noise=0.05 if lam else 0.0))
        yield dict(fn="mri.recon", args=dict(v=dict(cls=cls, D=2, C=4, coord=False, weights="none", batch=2), lam=0.1, seed=seed, noise=0.05, undersample=True))
    if tier != "quick":
        yield dict(fn="mri.recon", args=dict(v=dict(cls="SenseRecon", D=3, C=3, coord=False, weights="given", batch=2), lam=0.0, seed=seed, shape=[4, 2, 2]))
        yield dict(fn="mri.recon", args=dict(v=dict(cls="TotalVariationRecon", D=3, C=3, coord=True, weights="given", batch=2), lam=0.05, seed=seed, shape=[4, 2, 2], noise=0.05))


def groups(tier, seed):
    yield dict(name="Sense: forward / adjoint against the explicit dense encoding, every coil batch size",
               bound="image shapes <= 7 per axis (2-D, 3-D, odd/even), coils <= 4, batch sizes None,1..C+1, Cartesian (dense DFT) and non-Cartesian "
                     "(sigpy.nufft per coil), weights on/off; tseg / transposed-NUFFT options compared with the unbatched operator",
               cases=sense_cases(tier, seed))
    yield dict(name="SenseRecon / TotalVariationRecon / L1WaveletRecon(haar): objective at the returned image vs a dense reference optimum",
               bound="4x4 (and 4x2x2) images, 4 coils, lamda in {0, 0.05, 0.1}, Cartesian full / undersampled and 3x oversampled non-Cartesian, "
                     "weights none/given, batch sizes None,1,3; max_iter 400",
               cases=recon_cases(tier, seed))
