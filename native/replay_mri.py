"""replay handlers for C16 (Sense operator, recon apps) and C17 (ESPIRiT) on the real code"""
import numpy as np


def run(req):
    fn, a = req["fn"], req.get("args", {})
    if fn == "mri.sense":
        return _sense(a)
    if fn == "mri.recon":
        return _recon(a)
    if fn == "mri.espirit":
        return _espirit(a)
    if fn == "wavelet.check":
        return _wavelet(a)
    if fn == "fourier.nufft":
        return _nufft(a)
    if fn == "scipy.contract":
        return _scipy_contract(a)
    return dict(reproduced=False, detail="no replay handler for %s" % fn)


def _rnd(rs, *s):
    return rs.standard_normal(s) + 1j * rs.standard_normal(s)


def _dft(n):
    j = np.arange(n) - n // 2
    return np.exp(-2j * np.pi * np.outer(j, j) / n) / np.sqrt(n)


def _explicit_fft(z, D):
    """centred unitary DFT over the last D axes, by dense matrices"""
    out = z
    for ax in range(-D, 0):
        W = _dft(z.shape[ax])
        out = np.moveaxis(np.tensordot(W, np.moveaxis(out, ax, 0), axes=(1, 0)), 0, ax)
    return out


def _sense_setup(a):
    v = a.get("v", {})
    rs = np.random.RandomState(int(a.get("seed", 0)))
    D, Cn = int(v.get("D", 2)), int(v.get("C", 2))
    shape = a.get("shape") or [5, 4, 3][:D]
    mps = _rnd(rs, Cn, *shape)
    coord = None
    kshape = list(shape)
    if v.get("coord"):
        if v.get("transp"):
            kshape = list(shape)
        else:
            kshape = [7, 2][:int(v.get("pts_rank", 1))]
        coord = rs.uniform(-0.6, 0.6, kshape + [D]) * np.array(shape)
    w = rs.uniform(0, 2, kshape) if v.get("weights") else None
    if w is not None:
        w.flat[0] = 0.0
    return v, rs, D, Cn, shape, mps, coord, kshape, w


def _sense(a):
    import sigpy as sp
    import sigpy.mri as mr
    v, rs, D, Cn, shape, mps, coord, kshape, w = _sense_setup(a)
    x = _rnd(rs, *shape)
    y = _rnd(rs, Cn, *kshape)
    kw = {}
    if v.get("tseg"):
        kw["tseg"] = dict(b0=rs.standard_normal(shape) * 40, dt=4e-3, lseg=int(v["tseg"]), n_bins=8)
    if v.get("transp"):
        kw["transp_nufft"] = True
    A = mr.linop.Sense(mps, coord=coord, weights=w, coil_batch_size=v.get("batch"), **kw)
    got, gotH = A(x), A.H(y)
    bad = []
    if list(A.oshape) != [Cn] + kshape or list(A.ishape) != list(shape):
        bad.append("shapes %s <- %s" % (A.oshape, A.ishape))
    if kw:
        R = mr.linop.Sense(mps, coord=coord, weights=w, **kw)
        want, wantH = R(x), R.H(y)
    else:
        sw = 1.0 if w is None else np.sqrt(w)
        if coord is None:
            want = sw * _explicit_fft(mps * x, D)
            wantH = np.sum(np.conj(mps) * np.conj(_explicit_fft(np.conj(sw * y), D)), axis=0)
        else:
            want = sw * sp.nufft(mps * x, coord)
            wantH = np.sum(np.conj(mps) * sp.nufft_adjoint(sw * y, coord, oshape=mps.shape), axis=0)
    for nm, g, wn in (("forward", got, want), ("adjoint", gotH, wantH)):
        if g.shape != wn.shape:
            bad.append("%s shape %s != %s" % (nm, g.shape, wn.shape))
            continue
        e = float(np.linalg.norm(g - wn) / max(np.linalg.norm(wn), 1e-300))
        if not e < 1e-6:
            bad.append("%s differs from the explicit encoding: relative error %.3g" % (nm, e))
    d = abs(np.vdot(got, y) - np.vdot(x, gotH)) / max(abs(np.vdot(got, y)), 1e-300)
    if not d < 1e-6:
        bad.append("<Ax,y> != <x,A^H y> (relative %.3g)" % d)
    return dict(reproduced=bool(bad), detail="; ".join(bad) or "agrees with the explicit encoding")


def _dense(L):
    n = int(np.prod(L.ishape))
    cols = []
    for j in range(n):
        e = np.zeros(n, complex)
        e[j] = 1
        cols.append(np.asarray(L(e.reshape(L.ishape))).ravel())
    return np.stack(cols, axis=1)


def _soft(t, v):
    return v / np.maximum(np.abs(v), 1e-300) * np.maximum(np.abs(v) - t, 0)


def _recon(a):
    import sigpy as sp
    import sigpy.mri as mr
    v = dict(a.get("v", {}))
    cls = v.get("cls", "SenseRecon")
    vv = dict(v, weights=(v.get("weights") == "given"))
    _, rs, D, Cn, shape, mps, coord, kshape, w = _sense_setup(dict(a, v=vv, shape=a.get("shape") or [4, 4, 2][:int(v.get("D", 2))]))
    if coord is not None and not a.get("few_points"):
        # enough samples for a determined problem
        kshape = [3 * int(np.prod(shape))]
        coord = rs.uniform(-0.5, 0.5, kshape + [D]) * np.array(shape)
        w = rs.uniform(0.5, 2, kshape) if vv["weights"] else None
    lam = float(a.get("lam", 0.0 if cls == "SenseRecon" else 0.05))
    xt = _rnd(rs, *shape)
    E = mr.linop.Sense(mps, coord=coord)
    y = E(xt)
    if a.get("noise", 0.0):
        y = y + float(a["noise"]) * _rnd(rs, *y.shape)
    mask = None
    if coord is None and v.get("weights") == "none" and a.get("undersample"):
        mask = rs.uniform(size=kshape) > 0.3
        y = y * mask
    y0 = y.copy()
    kw = dict(coord=coord, weights=w, coil_batch_size=v.get("batch"), show_pbar=False, max_iter=int(a.get("max_iter", 400)))
    wave = a.get("wave", "haar")
    try:
        if cls == "SenseRecon":
            app = mr.app.SenseRecon(y, mps, lamda=lam, **kw)
        elif cls == "L1WaveletRecon":
            app = mr.app.L1WaveletRecon(y, mps, lam, wave_name=wave, **kw)
        else:
            app = mr.app.TotalVariationRecon(y, mps, lam, **kw)
        x = app.run()
    except Exception as e:
        return dict(reproduced=True, detail="raised %s: %s" % (type(e).__name__, str(e)[:200]))
    bad = []
    if not np.array_equal(y, y0):
        bad.append("the caller's k-space data was modified")
    # documented objective with the explicit encoding matrix
    Em = _dense(E)
    if w is not None:
        weff = w
    elif coord is None:
        weff = (np.sqrt(np.sum(np.abs(y0) ** 2, axis=0)) > 0).astype(float)
    else:
        weff = None
    sw = np.ones(kshape) if weff is None else np.sqrt(weff)
    swv = np.tile(sw.ravel(), Cn)
    Am = swv[:, None] * Em
    yv = swv * y0.ravel()
    n = int(np.prod(shape))
    if cls == "SenseRecon":
        Gm, lam2, lam1 = np.zeros((1, n)), lam, 0.0
    elif cls == "TotalVariationRecon":
        Gm, lam2, lam1 = _dense(sp.linop.FiniteDifference(shape)), 0.0, lam
    else:
        Wl = sp.linop.Wavelet(shape, wave_name=wave)
        Gm, lam2, lam1 = _dense(Wl), 0.0, lam
        if np.linalg.norm(Gm @ Gm.conj().T - np.eye(Gm.shape[0])) > 1e-8:
            return dict(reproduced=False, detail="wavelet transform not unitary for this shape: outside the property's premise")

    def F(xx):
        xv = np.asarray(xx).ravel()
        return 0.5 * np.linalg.norm(Am @ xv - yv) ** 2 + lam2 / 2 * np.linalg.norm(xv) ** 2 + lam1 * np.sum(np.abs(Gm @ xv))
    if lam1 == 0:
        H = Am.conj().T @ Am + lam2 * np.eye(n)
        if np.linalg.cond(H) > 1e10:
            return dict(reproduced=False, detail="singular normal equations: minimiser not unique, skipped")
        xr = np.linalg.solve(H, Am.conj().T @ yv)
    else:
        rho = 1.0
        Hi = np.linalg.inv(Am.conj().T @ Am + rho * Gm.conj().T @ Gm + 1e-12 * np.eye(n))
        vv_, u = np.zeros(Gm.shape[0], complex), np.zeros(Gm.shape[0], complex)
        for _ in range(4000):
            xr = Hi @ (Am.conj().T @ yv + rho * Gm.conj().T @ (vv_ - u))
            vv_ = _soft(lam1 / rho, Gm @ xr + u)
            u = u + Gm @ xr - vv_
    Fx, Fr = F(x), F(xr)
    tol = float(a.get("tol", 2e-3))
    if not np.all(np.isfinite(x)):
        bad.append("non-finite reconstruction")
    elif Fx > Fr + tol * max(1.0, abs(Fr)):
        bad.append("objective %.8g exceeds the optimum %.8g of the documented objective" % (Fx, Fr))
    if cls == "SenseRecon" and lam == 0 and not a.get("noise") and mask is None and np.all(np.isfinite(x)):
        e = float(np.linalg.norm(x - xt) / np.linalg.norm(xt))
        if np.linalg.cond(Am) < 1e6 and e > 1e-2:
            bad.append("consistent fully determined data not reproduced: relative error %.3g" % e)
    return dict(reproduced=bool(bad), detail="; ".join(bad) or "minimises the documented objective within tolerance")


def _espirit(a):
    import sigpy as sp
    import sigpy.mri as mr
    rs = np.random.RandomState(int(a.get("seed", 0)))
    shape = list(a.get("shape", [12, 12]))
    Cn = int(a.get("C", 4))
    kind = a.get("kind", "random")
    if kind == "random":
        ksp = _rnd(rs, Cn, *shape)
        true = None
    else:
        true = mr.birdcage_maps([Cn] + shape)
        img = sp.shepp_logan(shape) if a.get("image", "ones") == "phantom" else np.ones(shape, complex)
        if kind == "zero-coil0":
            true = true.copy()
        ksp = sp.fft(true * img, axes=range(-len(shape), 0))
    kw = dict(calib_width=int(a.get("calib_width", min(shape))), thresh=float(a.get("thresh", 0.02)), kernel_width=int(a.get("kernel_width", 4)),
              crop=float(a.get("crop", 0.95)), max_iter=int(a.get("max_iter", 100)), show_pbar=False)
    out_eig = bool(a.get("output_eigenvalue", True))
    try:
        res = mr.app.EspiritCalib(ksp, output_eigenvalue=out_eig, **kw).run()
    except Exception as e:
        return dict(reproduced=True, detail="raised %s: %s" % (type(e).__name__, str(e)[:200]))
    mps, eig = (res if out_eig else (res, None))
    bad = []
    if list(mps.shape) != [Cn] + shape:
        bad.append("maps shape %s" % (mps.shape,))
        return dict(reproduced=True, detail="; ".join(bad))
    if not np.all(np.isfinite(mps)):
        bad.append("non-finite maps")
        return dict(reproduced=True, detail="; ".join(bad))
    nrm = np.sqrt(np.sum(np.abs(mps) ** 2, axis=0))
    zero = nrm == 0
    tol = float(a.get("tol", 1e-4))
    if np.any(np.abs(nrm[~zero] - 1) > tol):
        bad.append("a voxel has coil-vector norm %.6g (neither 1 nor 0)" % float(nrm[~zero][np.argmax(np.abs(nrm[~zero] - 1))]))
    c0 = mps[0]
    if np.any(np.abs(c0.imag) > tol) or np.any(c0.real < -tol):
        bad.append("first coil is not real non-negative (max |imag| %.3g, min real %.3g)" % (float(np.max(np.abs(c0.imag))), float(np.min(c0.real))))
    if eig is not None:
        if np.any(eig < -tol) or np.any(eig > 1 + float(a.get("eig_tol", 1e-3))):
            bad.append("eigenvalue outside [0,1]: min %.6g max %.6g" % (float(eig.min()), float(eig.max())))
        crop = kw["crop"]
        if np.any(zero != ~(eig > crop)):
            # allow equality-at-threshold ambiguity only
            amb = np.abs(eig - crop) < 1e-6
            if np.any((zero != ~(eig > crop)) & ~amb):
                bad.append("zeroed voxels do not coincide with eigenvalue <= crop")
    if true is not None and a.get("compare", True):
        rss = np.sqrt(np.sum(np.abs(true) ** 2, axis=0))
        tn = np.abs(true) / rss
        sl = tuple([slice(None)] + [slice(s // 4, s - s // 4) for s in shape])
        keep = ~zero[sl[1:]]
        if keep.sum() == 0:
            bad.append("all interior voxels were cropped for fully sampled smooth-map data")
        else:
            err = np.abs(np.abs(mps[sl]) - tn[sl])[:, keep]
            if float(err.max()) > float(a.get("map_tol", 0.05)):
                bad.append("interior magnitudes differ from the true normalised maps by %.3g" % float(err.max()))
    return dict(reproduced=bool(bad), detail="; ".join(bad) or "unit-norm or zero, phase-referenced, eigenvalues in [0,1]")


def _wavelet(a):
    import warnings
    from sigpy import wavelet
    import sigpy as sp
    warnings.simplefilter("ignore")
    rs = np.random.RandomState(int(a.get("seed", 0)))
    shape = list(a["shape"])
    w, level = a.get("wave", "db4"), a.get("level")
    axes = a.get("axes")
    axes = None if axes is None else tuple(axes)
    cplx = a.get("complex", True)
    x = rs.standard_normal(shape) + (1j * rs.standard_normal(shape) if cplx else 0)
    bad = []
    osh, sl = wavelet.get_wavelet_shape(shape, w, axes, level)
    y = wavelet.fwt(x, w, axes, level)
    if tuple(y.shape) != tuple(osh):
        bad.append("fwt output shape %s != advertised %s" % (y.shape, tuple(osh)))
    xr = wavelet.iwt(y, shape, sl, w, axes, level)
    nx = max(np.linalg.norm(x), 1e-300)
    if xr.shape != x.shape or np.linalg.norm(xr - x) > 1e-6 * nx:
        bad.append("iwt(fwt(x)) != x (relative error %.3g)" % (np.linalg.norm(xr - x) / nx if xr.shape == x.shape else float("nan")))
    if abs(np.linalg.norm(y) - np.linalg.norm(x)) > 1e-6 * nx:
        bad.append("||fwt(x)|| / ||x|| = %.8g" % (np.linalg.norm(y) / nx))
    u = rs.standard_normal(y.shape) + 1j * rs.standard_normal(y.shape)
    xa = wavelet.iwt(u, shape, sl, w, axes, level)
    d = abs(np.vdot(y, u) - np.vdot(x, xa)) / max(abs(np.vdot(y, u)), 1e-300)
    if d > 1e-6:
        bad.append("<fwt x, u> != <x, iwt u> (relative %.3g)" % d)
    W = sp.linop.Wavelet(shape, axes=axes, wave_name=w, level=level)
    if list(W.oshape) != list(y.shape):
        bad.append("Wavelet.oshape %s != fwt shape %s" % (W.oshape, y.shape))
    else:
        z = W.H(W(x))
        if np.linalg.norm(z - x) > 1e-6 * nx:
            bad.append("W.H W x != x")
    return dict(reproduced=bool(bad), detail="; ".join(bad) or "perfect reconstruction, isometry, adjoint, advertised shape")


def _nudft(x, coord, ndim):
    shape = x.shape[-ndim:]
    grids = np.meshgrid(*[np.arange(n) - n // 2 for n in shape], indexing="ij")
    pts = coord.reshape(-1, ndim)
    ph = np.zeros((pts.shape[0],) + tuple(shape))
    for d in range(ndim):
        ph = ph + pts[:, d].reshape((-1,) + (1,) * ndim) * grids[d][None] / shape[d]
    E = np.exp(-2j * np.pi * ph).reshape(pts.shape[0], -1) / np.sqrt(np.prod(shape))
    xb = x.reshape(-1, int(np.prod(shape)))
    return (xb @ E.T).reshape(x.shape[:-ndim] + coord.shape[:-1]), E


def _nufft(a):
    import sigpy as sp
    rs = np.random.RandomState(int(a.get("seed", 0)))
    shape = list(a["shape"])
    nd = len(shape)
    kind = a.get("kind", "random")
    npts = int(a.get("npts", 40))
    s = np.array(shape, float)
    if kind == "random":
        c = rs.uniform(-0.5, 0.5, (npts, nd)) * s
    elif kind == "grid":
        c = np.floor(rs.uniform(-0.5, 0.5, (npts, nd)) * s)
    elif kind == "half":
        c = np.floor(rs.uniform(-0.5, 0.5, (npts, nd)) * s) + 0.5
    elif kind == "cluster":
        c = rs.normal(0, 0.3, (npts, nd))
    else:
        c = rs.uniform(-2, 2, (npts, nd)) * s
    if a.get("pts_rank", 1) == 2:
        c = c.reshape(npts // 4, 4, nd)
    batch = (2,) * int(a.get("batch", 0))
    x = rs.standard_normal(batch + tuple(shape)) + 1j * rs.standard_normal(batch + tuple(shape))
    os_, w = float(a.get("oversamp", 1.25)), a.get("width", 4)
    kw = {} if a.get("defaults") else dict(oversamp=os_, width=w)
    y = sp.nufft(x, c, **kw)
    yr, E = _nudft(x, c, nd)
    bad = []
    if y.shape != yr.shape:
        return dict(reproduced=True, detail="output shape %s, expected %s" % (y.shape, yr.shape))
    e = float(np.linalg.norm(y - yr) / np.linalg.norm(yr))
    tol = a.get("tol")
    if tol is None:
        tol = 0.03 if (os_ == 1.25 and w == 4) else (0.003 if (os_ == 2.0 and w >= 4) else None)
    if tol is not None and not e < tol:
        bad.append("relative l2 error %.4g against the exact non-uniform DFT exceeds %.3g (oversamp=%g, width=%g)" % (e, tol, os_, w))
    # periodicity: coordinates shifted by whole periods
    sh = c + s * rs.randint(-2, 3, c.shape[:-1] + (nd,))
    y2 = sp.nufft(x, sh, **kw)
    # the exact transform is periodic; nufft at the shifted coordinates must approximate the SAME values to the same accuracy
    # (bit-identical results are not required: at window-edge ties floating-point rounding of the scaled coordinate moves
    # one edge tap, whose weight is within the stated accuracy)
    e2 = float(np.linalg.norm(y2 - yr) / np.linalg.norm(yr))
    lim = tol if tol is not None else 2 * e + 1e-3
    if not e2 < lim:
        bad.append("coordinates shifted by whole periods: relative error %.3g against the (periodic) exact transform exceeds %.3g (unshifted: %.3g)" % (e2, lim, e))
    # exact adjoint with the same scaling
    u = rs.standard_normal(y.shape) + 1j * rs.standard_normal(y.shape)
    xa = sp.nufft_adjoint(u, c, oshape=x.shape, **kw)
    if xa.shape != x.shape:
        bad.append("nufft_adjoint shape %s" % (xa.shape,))
    else:
        d = abs(np.vdot(y, u) - np.vdot(x, xa)) / max(abs(np.vdot(y, u)), 1e-300)
        if not d < 1e-9:
            bad.append("<nufft x, u> != <x, nufft_adjoint u> (relative %.3g)" % d)
        # Gram: adjoint(nufft(x)) approximates E^H E x
        g = sp.nufft_adjoint(y, c, oshape=x.shape, **kw)
        xb = x.reshape(-1, int(np.prod(shape)))
        gr = ((xb @ E.T) @ E.conj()).reshape(x.shape)
        eg = float(np.linalg.norm(g - gr) / max(np.linalg.norm(gr), 1e-300))
        if tol is not None and not eg < 3 * tol:
            bad.append("nufft_adjoint(nufft(x)) differs from the exact Gram matrix by %.3g" % eg)
    return dict(reproduced=bool(bad), detail="; ".join(bad) or "relative error %.3g" % e)


def _scipy_contract(a):
    """the assumed scipy.signal contract of contracts/C08.py (ScipyC), checked on the installed scipy"""
    import itertools
    import scipy.signal as signal
    rs = np.random.RandomState(int(a.get("seed", 0)))
    sa, sb = tuple(a["shape_a"]), tuple(a["shape_b"])
    mode = a.get("mode", "full")
    A = rs.standard_normal(sa) + 1j * rs.standard_normal(sa)
    B = rs.standard_normal(sb) + 1j * rs.standard_normal(sb)
    nd = len(sa)
    ge = all(x >= y for x, y in zip(sa, sb))
    le = all(x <= y for x, y in zip(sa, sb))

    def full(X, Y):
        out = np.zeros([x + y - 1 for x, y in zip(X.shape, Y.shape)], complex)
        for k in itertools.product(*[range(n) for n in out.shape]):
            tot = 0
            for j in itertools.product(*[range(n) for n in X.shape]):
                idx = tuple(kk - jj for kk, jj in zip(k, j))
                if all(0 <= i < n for i, n in zip(idx, Y.shape)):
                    tot += X[j] * Y[idx]
            out[k] = tot
        return out

    def contract_conv(X, Y, mode):
        f = full(X, Y)
        if mode == "full":
            return f
        off = [min(x, y) - 1 for x, y in zip(X.shape, Y.shape)]
        ln = [abs(x - y) + 1 for x, y in zip(X.shape, Y.shape)]
        return f[tuple(slice(o, o + l) for o, l in zip(off, ln))]
    bad = []
    if mode == "valid" and not (ge or le):
        for fn in (signal.convolve, signal.correlate):
            try:
                fn(A, B, mode="valid")
                bad.append("%s accepted mixed larger/smaller axes in 'valid' mode" % fn.__name__)
            except ValueError:
                pass
        return dict(reproduced=bool(bad), detail="; ".join(bad) or "rejected as the contract says")
    got = signal.convolve(A, B, mode=mode)
    want = contract_conv(A, B, mode)
    if got.shape != want.shape or np.max(np.abs(got - want)) > 1e-9:
        bad.append("convolve(%s,%s,%s) differs from the contract" % (sa, sb, mode))
    Brc = np.conj(B[tuple(slice(None, None, -1) for _ in range(nd))])
    got = signal.correlate(A, B, mode=mode)
    want = contract_conv(A, Brc, mode)
    if got.shape != want.shape or np.max(np.abs(got - want)) > 1e-9:
        bad.append("correlate(%s,%s,%s) differs from convolve(a, conj(reverse(b)))" % (sa, sb, mode))
    return dict(reproduced=bool(bad), detail="; ".join(bad) or "scipy.signal matches the assumed contract")
