"""Run-time frame check: call a public array function / Prox / Linop on sample inputs (contiguous and strided, real and
complex) and verify that no argument array (nor an array the object was built from) changed."""
import numpy as np


def _inputs(shape, rs):
    base = rs.standard_normal(shape) + 1j * rs.standard_normal(shape)
    yield "complex-contiguous", base.astype(np.complex128)
    yield "real-contiguous", base.real.copy()
    big = (rs.standard_normal(tuple(2 * s for s in shape)) + 0j)
    yield "complex-strided-view", big[tuple(slice(None, None, 2) for _ in shape)]
    yield "complex64", base.astype(np.complex64)


def calls():
    """name -> (function taking arrays, list of (argname, shape))"""
    import sigpy as sp
    from sigpy.mri import util as mu
    t = {}
    t["sigpy.util.vec"] = (lambda a, b: sp.util.vec([a, b]), [(3, 2), (4,)])
    t["sigpy.util.split"] = (lambda a: sp.util.split(a, [(2, 2), (3,)]), [(7,)])
    t["sigpy.util.rss"] = (lambda a: sp.util.rss(a), [(3, 4)])
    t["sigpy.util.resize"] = (lambda a: sp.util.resize(a, [5, 3]), [(4, 4)])
    t["sigpy.util.flip"] = (lambda a: sp.util.flip(a, axes=[0]), [(4, 3)])
    t["sigpy.util.circshift"] = (lambda a: sp.util.circshift(a, [1], axes=[0]), [(4, 3)])
    t["sigpy.util.downsample"] = (lambda a: sp.util.downsample(a, [2]), [(6,)])
    t["sigpy.util.upsample"] = (lambda a: sp.util.upsample(a, [6], [2]), [(3,)])
    t["sigpy.fourier.fft"] = (lambda a: sp.fft(a), [(4, 5)])
    t["sigpy.fourier.ifft"] = (lambda a: sp.ifft(a, axes=[-1], center=False), [(4, 5)])
    t["sigpy.fourier.nufft"] = (lambda a, c: sp.nufft(a, c.real), [(6, 6), (5, 2)])
    t["sigpy.fourier.nufft_adjoint"] = (lambda a, c: sp.nufft_adjoint(a, c.real, [6, 6]), [(5,), (5, 2)])
    t["sigpy.interp.interpolate"] = (lambda a, c: sp.interpolate(a, c.real, width=2.5), [(6, 6), (5, 2)])
    t["sigpy.interp.gridding"] = (lambda a, c: sp.gridding(a, c.real, [6, 6], width=2.5), [(5,), (5, 2)])
    t["sigpy.conv.convolve"] = (lambda a, f: sp.convolve(a, f), [(6,), (3,)])
    t["sigpy.conv.convolve_data_adjoint"] = (lambda o, f: sp.convolve_data_adjoint(o, f, [6]), [(8,), (3,)])
    t["sigpy.conv.convolve_filter_adjoint"] = (lambda o, d: sp.convolve_filter_adjoint(o, d, [3]), [(8,), (6,)])
    t["sigpy.block.array_to_blocks"] = (lambda a: sp.array_to_blocks(a, [2], [1]), [(5,)])
    t["sigpy.block.blocks_to_array"] = (lambda a: sp.blocks_to_array(a, [5], [2], [1]), [(4, 2)])
    t["sigpy.thresh.soft_thresh"] = (lambda a: sp.soft_thresh(0.5, a), [(4, 3)])
    t["sigpy.thresh.hard_thresh"] = (lambda a: sp.hard_thresh(0.5, a), [(4, 3)])
    t["sigpy.thresh.l1_proj"] = (lambda a: sp.l1_proj(1.0, a), [(6,)])
    t["sigpy.thresh.l1_proj(feasible)"] = (lambda a: sp.l1_proj(1e6, a), [(6,)])
    t["sigpy.thresh.l2_proj"] = (lambda a: sp.l2_proj(1.0, a), [(4, 3)])
    t["sigpy.thresh.linf_proj"] = (lambda a: sp.linf_proj(0.5, a), [(4, 3)])
    t["sigpy.thresh.psd_proj"] = (lambda a: sp.thresh.psd_proj(a + a.conj().T), [(4, 4)])
    t["sigpy.wavelet.fwt"] = (lambda a: sp.wavelet.fwt(a), [(5, 6)])
    t["sigpy.mri.util.get_cov"] = (lambda a: mu.get_cov(a), [(3, 20)])
    t["sigpy.mri.util.whiten"] = (lambda a: mu.whiten(a, np.eye(3) * 2.0), [(3, 8)])
    # prox objects
    P = sp.prox
    t["sigpy.prox.L1Reg._prox"] = (lambda a: P.L1Reg(a.shape, 0.3)(0.5, a), [(4, 3)])
    t["sigpy.prox.L2Reg._prox"] = (lambda a, y: P.L2Reg(a.shape, 0.3, y=y)(0.5, a), [(4, 3), (4, 3)])
    t["sigpy.prox.L2Reg(proxh)._prox"] = (lambda a, y: P.L2Reg(a.shape, 0.3, y=y, proxh=P.L1Reg(a.shape, 0.1))(0.5, a), [(4, 3), (4, 3)])
    t["sigpy.prox.L2Proj._prox"] = (lambda a, y: P.L2Proj(a.shape, 1.0, y=y)(0.5, a), [(4, 3), (4, 3)])
    t["sigpy.prox.LInfProj._prox"] = (lambda a, y: P.LInfProj(a.shape, 0.5, bias=y)(0.5, a), [(4, 3), (4, 3)])
    t["sigpy.prox.L1Proj._prox"] = (lambda a: P.L1Proj(a.shape, 1.0)(0.5, a), [(6,)])
    t["sigpy.prox.BoxConstraint._prox"] = (lambda a: P.BoxConstraint(a.shape, -0.2, 0.2)(0.5, a.real if True else a), [(4, 3)])
    t["sigpy.prox.Conj._prox"] = (lambda a: P.Conj(P.L1Reg(a.shape, 0.3))(0.5, a), [(4, 3)])
    t["sigpy.prox.Stack._prox"] = (lambda a: P.Stack([P.L1Reg([4], 0.3), P.L2Reg([3], 0.2)])(0.5, a), [(7,)])
    t["sigpy.prox.UnitaryTransform._prox"] = (lambda a: P.UnitaryTransform(P.L1Reg(a.shape, 0.3), sp.linop.FFT(a.shape))(0.5, a), [(4, 3)])
    t["sigpy.prox.NoOp._prox"] = (lambda a: P.NoOp(a.shape)(0.5, a), [(4, 3)])
    return t


def check(name=None, seed=0):
    rs = np.random.RandomState(seed)
    out = []
    n = 0
    for fname, (fn, shapes) in calls().items():
        if name is not None and not fname.startswith(name):
            continue
        gens = [list(_inputs(s, rs)) for s in shapes]
        for variant in range(len(gens[0])):
            args = [g[variant][1] for g in gens]
            label = gens[0][variant][0]
            snaps = [a.copy() for a in args]
            n += 1
            try:
                fn(*args)
            except Exception as e:
                if "psd_proj" in fname or "BoxConstraint" in fname or "whiten" in fname:
                    continue
                out.append("%s [%s]: raised %s: %s" % (fname, label, type(e).__name__, str(e)[:100]))
                continue
            for i, (a, s0) in enumerate(zip(args, snaps)):
                if not np.array_equal(a, s0, equal_nan=True):
                    out.append("%s [%s]: argument %d was modified (max change %g)" % (fname, label, i, float(np.max(np.abs(a - s0)))))
    return n, out
