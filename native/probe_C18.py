import itertools


def cases(tier, seed):
    shapes = [(16, 16), (24, 16), (32, 32)] + ([(64, 48), (17, 23)] if tier != "quick" else [])
    for shape in shapes:
        for accel in (2.0, 4.0, 8.0):
            for calib in ((0, 0), (4, 4), (6, 2)):
                for cc in (True, False):
                    yield dict(fn="samp.poisson", args=dict(shape=shape, accel=accel, calib=calib, crop_corner=cc, seed=seed, tol=0.1 if accel < 8 else 0.3))
    for shape, calib in (((32, 32), (7, 7)), ((24, 40), (5, 9)), ((17, 16), (3, 4)), ((16, 16), (1, 1))):
        yield dict(fn="samp.poisson", args=dict(shape=shape, accel=3.0, calib=calib, crop_corner=False, seed=seed, tol=0.3))      # odd calibration extents
    yield dict(fn="samp.poisson", args=dict(shape=(16, 16), accel=12.0, calib=(8, 8), seed=seed, tol=0.1))       # cannot be met: must raise
    yield dict(fn="samp.poisson", args=dict(shape=(16, 16), accel=12.0, calib=(0, 0), seed=seed, tol=0.05))      # typically raises: RNG state on the raising path
    yield dict(fn="samp.poisson", args=dict(shape=(16, 16), accel=3.0, calib=(2, 2), seed=None, tol=0.2))
    yield dict(fn="samp.poisson", args=dict(shape=(16, 16), accel=2.0, calib=(8, 8), seed=seed + 5, dtype="float32", tol=0.2))
    yield dict(fn="samp.poisson", args=dict(shape=(16, 16), accel=2.0, calib=(15, 15), crop_corner=True, seed=0, tol=1.0, scenario="calib-margin-1"))
    yield dict(fn="samp.poisson", args=dict(shape=(16, 16), accel=2.0, calib=(14, 14), crop_corner=True, seed=0, tol=1.0))


def groups(tier, seed):
    yield dict(name="poisson masks: binary, accel within tol or ValueError, calibration block, ellipse (calib=0), reproducible, global RNG untouched",
               bound="shapes (16,16),(24,16),(32,32)(+2 thorough) x accel {2,4,8} x calib {(0,0),(4,4),(6,2)} x crop on/off + odd calibration extents + unreachable accelerations + edge cases", cases=cases(tier, seed))
