import itertools


def cases(tier, seed):
    hi = 5 if tier == "quick" else 7
    for rank in (1, 2, 3):
        shapes = itertools.product(range(1, hi + 1), repeat=rank) if rank < 3 else [(2, 3, 4), (3, 1, 5), (4, 4, 3)]
        for shape in shapes:
            axsets = [None] + [c for r in range(1, rank + 1) for c in itertools.combinations(range(-rank, rank), r) if len(set(q % rank for q in c)) == len(c)]
            if rank == 2 and max(shape) > 4:
                axsets = axsets[:4]
            for axes in axsets:
                for center, norm, inverse in itertools.product((True, False), ("ortho", None), (False, True)):
                    if rank > 1 and norm is None and not center:
                        continue
                    yield dict(fn="fourier.fft", args=dict(shape=shape, axes=axes, center=center, norm=norm, inverse=inverse, seed=seed,
                                                           dtype="complex64" if (sum(shape) % 3 == 0) else "complex128"))
    for n, m in itertools.product(range(1, 7), repeat=2):
        for inverse in (False, True):
            yield dict(fn="fourier.fft", args=dict(shape=(n,), oshape=[m], center=True, inverse=inverse, seed=seed))
            if (n + m) % 2 == 0:
                yield dict(fn="fourier.fft", args=dict(shape=(n,), oshape=[m], center=True, norm=None, inverse=inverse, seed=seed))
    # 2-D output shapes: pad one axis / crop the other, including output shapes with the SAME number of elements as the input
    for shape, osh in (((3, 4), [5, 2]), ((4, 3), [4, 6]), ((2, 5), [1, 1]), ((4, 6), [6, 4]), ((2, 6), [3, 4]), ((3, 4), [4, 3]), ((2, 3), [3, 2]), ((1, 6), [2, 3])):
        yield dict(fn="fourier.fft", args=dict(shape=shape, oshape=osh, center=True, seed=seed))
        yield dict(fn="fourier.fft", args=dict(shape=shape, oshape=osh, axes=(-1,), center=True, seed=seed, inverse=True))
    for dt in ("float32", "float64"):
        yield dict(fn="fourier.fft", args=dict(shape=(4, 3), dtype=dt, seed=seed))


def groups(tier, seed):
    yield dict(name="fft/ifft vs the explicit DFT matrix", bound="rank 1..2 extents 1..5 (7 thorough), three rank-3 shapes, every axes subset incl. negative, "
               "center x norm x inverse, centred oshape 1..6 -> 1..6 (both norms) and eight 2-D pad/crop mixtures incl. equal element counts, dtypes complex64/128/float32/64", cases=cases(tier, seed))
