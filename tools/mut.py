#!/usr/bin/env python3
"""Self-test helper: apply a one-off textual mutation to a scratch copy of /repo (never to /repo itself) and run a check
against it.  usage: tools/mut.py <PROP> <relfile> <old> <new> [--tier quick] [--only X]"""
import os, shutil, subprocess, sys, tempfile
prop, rel, old, new = sys.argv[1:5]
rest = sys.argv[5:]
tmp = tempfile.mkdtemp(prefix="mutrepo_", dir="/tmp")
try:
    shutil.copytree("/repo/sigpy", os.path.join(tmp, "sigpy"))
    p = os.path.join(tmp, rel)
    s = open(p).read()
    if s.count(old) < 1:
        print("PATTERN NOT FOUND"); sys.exit(9)
    s = s.replace(old, new, 1)
    open(p, "w").write(s)
    env = dict(os.environ, PYVC_REPO=tmp, PYVC_EVIDENCE_DIR=os.path.join(tmp, "evidence"))
    r = subprocess.run(["./check", prop] + rest, cwd="/verif", env=env, capture_output=True, text=True)
    lines = r.stdout.strip().splitlines()
    fails = [l.strip()[len("failed obligation: "):] for l in lines if l.strip().startswith("failed obligation")]
    print("failed obligations: %d" % len(fails))
    for l in fails[:6]:
        print("   ", l[:200])
    viol = [l for l in lines if l.startswith("VIOLATION")]
    print("violations: %d (reproduced natively: %d)" % (len(viol), sum(1 for l in viol if "no-failing-input-found" not in l)))
    for l in lines:
        if l.startswith(("ENGINE-ERROR", "UNDECIDED", "KNOWN")):
            print(l[:200])
    print(lines[-1][:300] if lines else "")
    print("exit", r.returncode)
finally:
    shutil.rmtree(tmp, ignore_errors=True)
