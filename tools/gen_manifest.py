#!/usr/bin/env python3
"""Regenerates /verif/MANIFEST.json from the table below (kept in one place so it stays valid)."""
import json, os
ROOT = os.path.dirname(os.path.dirname(os.path.abspath(__file__)))
BASE_OFF = "cd /repo && env -u SIGPY_VERIF /venv/bin/python -m pytest -ra -q -p no:cacheprovider --timeout=900 --continue-on-collection-errors"

CLAIMS = {}   # id -> dict(text, note, technique, design_ref)
NA = {}       # id -> reason
exec(open(os.path.join(ROOT, "tools", "claims.py")).read())

checks = []
for pid in sorted(CLAIMS):
    c = CLAIMS[pid]
    checks.append(dict(
        property_id=pid,
        quick_cmd="./check %s --tier quick" % pid,
        thorough_cmd="./check %s --tier thorough" % pid,
        evidence_file="evidence/%s.json" % pid,
        replay_cmd_template="./check %s --replay {path}" % pid,
        engine="pyvc",
        level_claimed=dict(category="proof", text=c["text"], design_ref=c.get("design_ref", "DESIGN.md section 8, " + pid)),
        level_note=c["note"],
        technique=c["technique"]))
man = dict(
    version=1,
    setup_cmd="python3-vt -c \"import z3, sys; sys.path.insert(0,'.'); import pyvc.core, pyvc.snp, pyvc.src\" && /venv/bin/python -c \"import sigpy, numpy\" && test -x /usr/bin/cvc5",
    hooks=dict(guard="SIGPY_VERIF", enable="no source hooks are needed: the checks parse /repo's sources and never import instrumented code",
               baseline_off_cmd=BASE_OFF, source_commits=[], add_only=True),
    engines=[dict(name="pyvc", path="pyvc/", serves_properties=sorted(CLAIMS),
                  kind_free_text="contract-based deductive verification: sidecar contracts on the real functions; the real AST of /repo is compiled and run on symbolic values (z3 terms), one named obligation per postcondition / invariant / frame clause, discharged by z3 (cvc5 on unknown); counter-models replayed natively on the real code; bounded run-time contract probes labelled bounded")],
    checks=checks,
    notes="Exit codes of ./check: 0 all obligations discharged, 1 violation (VIOLATION line), 2 undecided, 3 engine error. Known findings in known_findings.json.",
    not_applicable=[dict(property_id=k, reason=v) for k, v in sorted(NA.items())])
with open(os.path.join(ROOT, "MANIFEST.json"), "w") as f:
    json.dump(man, f, indent=1)
print("claims:", sorted(CLAIMS), "n/a:", sorted(NA))
