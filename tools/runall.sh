#!/bin/sh
# run every claimed check (quick tier by default) on the current tree, one after the other; prints one summary line per property
cd "$(dirname "$0")/.." || exit 3
tier="${1:-quick}"
rc=0
for id in $(python3 -c "import json;print(' '.join(c['property_id'] for c in json.load(open('MANIFEST.json'))['checks']))"); do
  out=$(./check "$id" --tier "$tier" 2>&1); e=$?
  echo "$out" | grep -E "^(VIOLATION|KNOWN-FINDING|ENGINE-ERROR|UNDECIDED)" | cut -c1-220
  echo "$out" | tail -1
  [ $e -ne 0 ] && rc=1
done
exit $rc
