#!/usr/bin/env python3
"""tools/seed.py confirm <worktree> <out_dir> <name> <prop> [test paths...]
   - confirms in the scratch worktree: demo passes without the patch, fails with it, given tests pass with it
   - copies patch.diff/demo.py/meta.json to /verif/seeded/<name>/
   tools/seed.py run <name> [PROP ...]   : applies the patch to /repo, runs the checks, restores /repo"""
import json, os, shutil, subprocess, sys
PY = "/venv/bin/python"


def sh(cmd, cwd=None, env=None):
    return subprocess.run(cmd, shell=True, cwd=cwd, env=env, capture_output=True, text=True)


def confirm(wt, out, name, prop, tests):
    env = dict(os.environ, PYTHONPATH=wt, NUMBA_CACHE_DIR="/tmp/numba_seed_cache")
    sh("git checkout -- .", cwd=wt)
    r0 = sh("%s %s/demo.py" % (PY, out), cwd=wt, env=env)
    a = sh("git apply %s/patch.diff" % out, cwd=wt)
    if a.returncode:
        print("patch does not apply:", a.stderr); return False
    r1 = sh("%s %s/demo.py" % (PY, out), cwd=wt, env=env)
    t = sh("%s -m pytest -q -p no:cacheprovider %s 2>&1 | tail -1" % (PY, " ".join(tests)), cwd=wt, env=env)
    sh("git checkout -- .", cwd=wt)
    ok = r0.returncode == 0 and r1.returncode != 0 and " passed" in t.stdout and "failed" not in t.stdout
    print("demo without patch rc=%d, with patch rc=%d, tests: %s => %s" % (r0.returncode, r1.returncode, t.stdout.strip(), "CONFIRMED" if ok else "REJECTED"))
    if ok:
        dst = "/verif/seeded/%s" % name
        os.makedirs(dst, exist_ok=True)
        for f in ("patch.diff", "demo.py"):
            shutil.copy(os.path.join(out, f), dst)
        meta = json.load(open(os.path.join(out, "meta.json")))
        meta["property"] = prop
        meta["confirmed_by_me"] = "in scratch worktree %s: demo rc %d -> %d; tests with patch (%s): %s" % (wt, r0.returncode, r1.returncode, " ".join(tests), t.stdout.strip())
        json.dump(meta, open(os.path.join(dst, "meta.json"), "w"), indent=1)
    return ok


def run(name, props):
    d = "/verif/seeded/%s" % name
    meta = json.load(open(d + "/meta.json"))
    props = props or [meta["property"]]
    a = sh("git -C /repo apply %s/patch.diff" % d)
    if a.returncode:
        print("patch does not apply to /repo:", a.stderr); return
    res = {}
    try:
        for p in props:
            env = dict(os.environ, PYVC_EVIDENCE_DIR="/tmp/seed_evidence")
            r = sh("./check %s --tier quick" % p, cwd="/verif", env=env)
            lines = r.stdout.strip().splitlines()
            fails = [l.strip()[len("failed obligation: "):] for l in lines if l.strip().startswith("failed obligation")]
            viol = [l for l in lines if l.startswith("VIOLATION")]
            res[p] = dict(exit=r.returncode, violations=len(viol), reproduced=sum(1 for l in viol if "no-failing" not in l), first=fails[:3])
            print(name, p, "exit", r.returncode, "violations", len(viol), "first:", fails[:2])
    finally:
        sh("git -C /repo checkout -- .")
    meta.setdefault("checks", {}).update(res)
    json.dump(meta, open(d + "/meta.json", "w"), indent=1)


def runcopy(name, props):
    """like run, but on a scratch copy of /repo's sigpy package (PYVC_REPO); /repo itself is not touched"""
    import tempfile
    d = "/verif/seeded/%s" % name
    meta = json.load(open(d + "/meta.json"))
    props = props or [meta["property"]]
    tmp = tempfile.mkdtemp(prefix="seedrepo_", dir="/tmp")
    try:
        sh("git -C /repo archive HEAD | tar -x -C %s" % tmp)
        a = sh("git apply --unsafe-paths --directory=%s %s/patch.diff" % (tmp, d), cwd=tmp)
        if a.returncode:
            a = sh("patch -p1 -d %s < %s/patch.diff" % (tmp, d))
        if a.returncode:
            print("patch does not apply:", a.stderr, a.stdout); return
        for p in props:
            env = dict(os.environ, PYVC_REPO=tmp, PYVC_EVIDENCE_DIR=os.path.join(tmp, "evidence"), PYVC_REPLAY_DIR=os.path.join(tmp, "replays"))
            r = sh("./check %s --tier quick" % p, cwd="/verif", env=env)
            lines = r.stdout.strip().splitlines()
            fails = [l.strip()[len("failed obligation: "):] for l in lines if l.strip().startswith("failed obligation")]
            viol = [l for l in lines if l.startswith("VIOLATION")]
            eng = [l for l in lines if l.startswith(("ENGINE-ERROR", "UNDECIDED"))]
            print(name, p, "exit", r.returncode, "violations", len(viol), "first:", fails[:3])
            for l in eng[:4]:
                print("   ", l[:220])
    finally:
        shutil.rmtree(tmp, ignore_errors=True)


if __name__ == "__main__":
    if sys.argv[1] == "confirm":
        confirm(sys.argv[2], sys.argv[3], sys.argv[4], sys.argv[5], sys.argv[6:])
    elif sys.argv[1] == "runcopy":
        runcopy(sys.argv[2], sys.argv[3:])
    else:
        run(sys.argv[2], sys.argv[3:])
