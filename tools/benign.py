#!/usr/bin/env python3
"""Harmless (semantics-preserving) edits of the real sources, applied one at a time to a scratch copy: the named checks must
stay quiet (exit 0, no VIOLATION).  Guards against brittle contracts that key on temporaries, statement order or text.
usage: tools/benign.py [index ...]"""
import os, shutil, subprocess, sys, tempfile

EDITS = [
    # (properties, file, old, new, what)
    (["C12"], "sigpy/alg.py", "            Ap = self.A(self.p)\n            pAp = xp.real(xp.vdot(self.p, Ap)).item()",
     "            A_times_p = self.A(self.p)\n            Ap = A_times_p\n            pAp = xp.real(xp.vdot(self.p, A_times_p)).item()", "CG: extra local for A p"),
    (["C12"], "sigpy/alg.py", "                rznew = xp.real(xp.vdot(self.r, z))\n                beta = rznew / self.rzold\n                util.xpay(self.p, beta, z)\n                self.rzold = rznew",
     "                rznew = xp.real(xp.vdot(self.r, z))\n                ratio = rznew / self.rzold\n                util.xpay(self.p, ratio, z)\n                self.rzold = rznew", "CG: beta renamed"),
    (["C11"], "sigpy/thresh.py", "    mag = abs_input - lamda\n    mag = (abs(mag) + mag) / 2\n", "    excess = abs_input - lamda\n    mag = (excess + abs(excess)) / 2\n", "soft threshold: renamed temporary, commuted sum"),
    (["C09", "C05"], "sigpy/util.py", "    ishape1, oshape1 = _expand_shapes(input.shape, oshape)", "    # normalise ranks first\n    ishape1, oshape1 = _expand_shapes(input.shape, oshape)", "resize: comment inserted (line numbers shift)"),
    (["C01", "C02", "C04"], "sigpy/linop.py", "            return input * mult\n", "            product = input * mult\n            return product\n", "Multiply: named result"),
    (["C16"], "sigpy/mri/linop.py", "    S = sp.linop.Multiply(ishape, mps)\n", "    coil_maps_op = sp.linop.Multiply(ishape, mps)\n    S = coil_maps_op\n", "Sense: alias for the sensitivity operator"),
    (["C06"], "sigpy/fourier.py", "    output /= util.prod(input.shape[-ndim:]) ** 0.5\n    output = util.resize(output, os_shape)", "    scale = util.prod(input.shape[-ndim:]) ** 0.5\n    output /= scale\n    output = util.resize(output, os_shape)", "nufft: scale in a local"),
    (["C14"], "sigpy/app.py", "            AHy = self.A.H * self.y\n            if self.G is None:\n                AHy = AHy + self.rho * (v - u)", "            rhs = self.A.H * self.y\n            AHy = rhs\n            if self.G is None:\n                AHy = AHy + self.rho * (v - u)", "ADMM x-update: extra local"),
    (["C17"], "sigpy/mri/app.py", "            mps = self.mps.T[0]\n            mps *= xp.conj(mps[0] / xp.abs(mps[0]))", "            mps = self.mps.T[0]\n            phase = mps[0] / xp.abs(mps[0])\n            mps *= xp.conj(phase)", "ESPIRiT: phase in a local"),
    (["C18"], "sigpy/mri/samp.py", "    mask = np.zeros((ny, nx))\n", "    mask = np.zeros((ny, nx))  # sampling mask\n", "_poisson: trailing comment"),
    (["C20"], "sigpy/mri/rf/trajgrad.py", "def trap_grad(area, gmax, dgdt, dt, *args):", "def trap_grad(area, gmax, dgdt, dt, *args):\n    # trapezoid of a given area", "trap_grad: comment after def"),
    (["C08"], "sigpy/conv.py", "    slc = tuple(slice(None, None, s_d) for s_d in s)\n\n    for k in range(B):\n        for j in range(c_o):\n            for i in range(c_i):\n                output[k, j] += signal.convolve(",
     "    slc = tuple(slice(None, None, s_d) for s_d in s)\n\n    for k in range(B):\n        for j in range(c_o):\n            for i in range(c_i):\n                # accumulate over input channels\n                output[k, j] += signal.convolve(", "_convolve: comment inside the loop nest"),
    (["C10"], "sigpy/wavelet.py", "    zshape = [((i + 1) // 2) * 2 for i in input.shape]\n    zinput = util.resize(input, zshape)", "    even_shape = [((i + 1) // 2) * 2 for i in input.shape]\n    zshape = even_shape\n    zinput = util.resize(input, even_shape)", "fwt: renamed padded shape"),
    (["C07"], "sigpy/interp.py", "def _spline_kernel(x, order):", "def _spline_kernel(x, order):\n    # B-spline of the given order", "spline kernel: comment"),
    # ---- algebraically equivalent rewrites / reordering of independent statements
    (["C06"], "sigpy/fourier.py", "    # Apodize\n    _apodize(output, ndim, oversamp, width, beta)\n\n    # Zero-pad\n    output /= util.prod(input.shape[-ndim:]) ** 0.5\n",
     "    # Scale, then apodize (the two commute)\n    output /= util.prod(input.shape[-ndim:]) ** 0.5\n    _apodize(output, ndim, oversamp, width, beta)\n\n", "nufft: scaling before apodisation"),
    (["C14"], "sigpy/app.py", "                gradf_x = self.A.N(x) - AHy\n", "                gradf_x = self.A.N(x)\n                gradf_x = gradf_x - AHy\n", "LLS gradient: two steps"),
    (["C19"], "sigpy/mri/rf/optcont.py", "            at = a * c - b * xp.conj(s)\n            bt = a * s + b * c\n            a = at\n            b = bt\n",
     "            bt = a * s + b * c\n            at = a * c - b * xp.conj(s)\n            a, b = at, bt\n", "blochsim: swapped independent statements, tuple assignment"),
    (["C20"], "sigpy/mri/rf/trajgrad.py", "            ramppts = int(np.ceil(gmax / dgdt / dt))\n            triareamax = ramppts * dt * gmax", "            ramppts = int(np.ceil(gmax / (dgdt * dt)))\n            triareamax = gmax * dt * ramppts", "min_trap_grad: a/b/c == a/(b*c), commuted product"),
    (["C16"], "sigpy/mri/app.py", "            y = sp.to_device(y * weights**0.5, device=device)\n        else:\n            y = sp.to_device(y, device=device)\n\n        A = linop.Sense(\n            mps,\n            coord=coord,\n            weights=weights,\n            tseg=tseg,",
     "            sqrt_w = weights**0.5\n            y = sp.to_device(sqrt_w * y, device=device)\n        else:\n            y = sp.to_device(y, device=device)\n\n        A = linop.Sense(\n            mps,\n            coord=coord,\n            weights=weights,\n            tseg=tseg,", "SenseRecon: sqrt(w) in a local, commuted product"),
    (["C09"], "sigpy/util.py", "        ishift = [max(i // 2 - o // 2, 0) for i, o in zip(ishape1, oshape1)]", "        ishift = [max((i // 2) - (o // 2), 0) for i, o in zip(ishape1, oshape1)]", "resize: parenthesised"),
    (["C12"], "sigpy/alg.py", "            self.alpha = self.rzold / pAp\n            util.axpy(self.x, self.alpha, self.p)", "            step = self.rzold / pAp\n            self.alpha = step\n            util.axpy(self.x, step, self.p)", "CG: step in a local"),
    # ---- edits aimed at the obligations added after the seeding rounds
    (["C15"], "sigpy/alg.py", "        return self.iter >= self.max_iter or self.stop", "        budget_used = self.iter >= self.max_iter\n        return budget_used or self.stop", "SDMM._done: named sub-expression"),
    (["C15"], "sigpy/alg.py", "    def _done(self):\n        return (self.iter >= self.max_iter) or self.resid <= self.tol", "    def _done(self):\n        return self.resid <= self.tol or (self.iter >= self.max_iter)", "GradientMethod._done: commuted disjunction"),
    (["C02", "C01"], "sigpy/linop.py", "            input = xp.conj(input)\n\n        output = self.A(input)", "            conj_input = xp.conj(input)\n\n        output = self.A(conj_input)", "Conj: conjugated input in a local"),
    (["C08"], "sigpy/conv.py", "                output_kj[slc] = output[k, j]\n                data[k, i] += signal.correlate(\n                    output_kj, filt[j, i], mode=adjoint_mode\n                )",
     "                output_kj[slc] = output[k, j]\n                contribution = signal.correlate(\n                    output_kj, filt[j, i], mode=adjoint_mode\n                )\n                data[k, i] += contribution", "data adjoint: contribution in a local"),
    (["C17"], "sigpy/mri/app.py", "                        xp.sum(xp.abs(x) ** 2, axis=-2, keepdims=True) ** 0.5", "                        xp.sqrt(xp.sum(xp.abs(x) ** 2, axis=-2, keepdims=True))", "ESPIRiT normalize: sqrt() instead of ** 0.5"),
    (["C18"], "sigpy/mri/samp.py", "        int(ny / 2 - calib[-2] / 2) : int(ny / 2 + calib[-2] / 2),", "        int((ny - calib[-2]) / 2) : int((ny + calib[-2]) / 2),", "_poisson: calibration rows as (ny -/+ c)/2"),
    (["C10"], "sigpy/wavelet.py", "    input = pywt.array_to_coeffs(input, coeff_slices, output_format=\"wavedecn\")\n    output = pywt.waverecn(input, wave_name, mode=\"zero\", axes=axes)", "    coeffs = pywt.array_to_coeffs(input, coeff_slices, output_format=\"wavedecn\")\n    output = pywt.waverecn(coeffs, wave_name, mode=\"zero\", axes=axes)", "iwt: coefficients in their own local"),
]


def main():
    idx = [int(a) for a in sys.argv[1:]] or range(len(EDITS))
    bad = 0
    for i in idx:
        props, rel, old, new, what = EDITS[i]
        if old == new:
            continue
        tmp = tempfile.mkdtemp(prefix="benign_", dir="/tmp")
        try:
            shutil.copytree("/repo/sigpy", os.path.join(tmp, "sigpy"))
            p = os.path.join(tmp, rel)
            s = open(p).read()
            if s.count(old) < 1:
                print("[%d] PATTERN NOT FOUND in %s (%s)" % (i, rel, what))
                bad += 1
                continue
            open(p, "w").write(s.replace(old, new, 1))
            for pr in props:
                env = dict(os.environ, PYVC_REPO=tmp, PYVC_EVIDENCE_DIR=os.path.join(tmp, "evidence"))
                r = subprocess.run(["./check", pr], cwd="/verif", env=env, capture_output=True, text=True)
                last = (r.stdout.strip().splitlines() or [""])[-1]
                ok = r.returncode == 0 and "VIOLATION" not in r.stdout
                print("[%d] %-46s %s exit %d  %s" % (i, what[:46], pr, r.returncode, "quiet" if ok else "ALARM: " + last[:120]))
                if not ok:
                    bad += 1
                    for l in r.stdout.splitlines():
                        if l.startswith(("VIOLATION", "ENGINE", "UNDECIDED")) or "failed obligation" in l:
                            print("      ", l[:200])
                            break
        finally:
            shutil.rmtree(tmp, ignore_errors=True)
    sys.exit(1 if bad else 0)


if __name__ == "__main__":
    main()
