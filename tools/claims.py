# table of claimed properties / not-applicable reasons (exec'd by gen_manifest.py)
_NOTYET = "contract set for this property is not built yet in this session (see DESIGN.md section 11 for the build order); no claim is made"
for _i in range(1, 21):
    NA["C%02d" % _i] = _NOTYET

def claim(pid, text, note, technique):
    CLAIMS[pid] = dict(text=text, note=note, technique=technique)
    NA.pop(pid, None)

claim("C09",
      "Elementwise postconditions taken from the property statement are proved for the real bodies of util.resize/flip/circshift/"
      "downsample/upsample for all extents, shifts, factors and element values (rank is the only structural bound).",
      "Assumes the numpy basic-slicing/reshape/roll/zeros contracts stated in pyvc/snp.py, integers mathematical, rank <= 3.",
      "contract-based deductive verification (symbolic execution of the real AST to VCs, z3/cvc5)")

claim("C20",
      "trap_grad and min_trap_grad are executed symbolically on real-valued area/gmax/dgdt/dt (all positive): start/end zero, exact "
      "area (total resp. flat top), amplitude <= gmax and slew <= dgdt*dt are proved for every sample index through lemma chains "
      "(peak bound, samples within peak, step bound); definedness of every division / max is an obligation. spokes_grad only bounded.",
      "Floats as reals; numpy linspace/ones/concatenate/sum/max closed forms assumed; spokes_grad covered by the bounded native probe only.",
      "contract-based deductive verification (symbolic execution of the real AST to nonlinear real/integer VCs, z3 incl. nlsat on the integer-relaxed VC)")
