# table of claimed properties / not-applicable reasons (exec'd by gen_manifest.py)
_NOTYET = "contract set for this property is not built yet in this session (see DESIGN.md section 11 for the build order); no claim is made"
for _i in range(1, 21):
    NA["C%02d" % _i] = _NOTYET

def claim(pid, text, note, technique):
    CLAIMS[pid] = dict(text=text, note=note, technique=technique)
    NA.pop(pid, None)

claim("C09",
      "Elementwise postconditions taken from the property statement are proved for the real bodies of util.resize/flip/circshift/"
      "downsample/upsample for all extents, shifts, factors and element values (rank is the only structural bound).",
      "Assumes the numpy basic-slicing/reshape/roll/zeros contracts stated in pyvc/snp.py, integers mathematical, rank <= 3.",
      "contract-based deductive verification (symbolic execution of the real AST to VCs, z3/cvc5)")

claim("C20",
      "trap_grad and min_trap_grad are executed symbolically on real-valued area/gmax/dgdt/dt (all positive): start/end zero, exact "
      "area (total resp. flat top), amplitude <= gmax and slew <= dgdt*dt are proved for every sample index through lemma chains "
      "(peak bound, samples within peak, step bound); definedness of every division / max is an obligation. spokes_grad only bounded.",
      "Floats as reals; numpy linspace/ones/concatenate/sum/max closed forms assumed; spokes_grad covered by the bounded native probe only.",
      "contract-based deductive verification (symbolic execution of the real AST to nonlinear real/integer VCs, z3 incl. nlsat on the integer-relaxed VC)")

claim("C12",
      "Class invariant of ConjugateGradient proved inductively on the real __init__/_update/_done run on abstract vectors: r = b - A x, "
      "rzold = <r,Pr>, resid = sqrt(rzold), p = z + beta p_old with beta = rz_new/rz_old, local conjugacy L1-L3 and the induction step of global conjugacy against every earlier direction (G1/G2), exact A-norm error decrease "
      "rz^2/pAp, in-place update of the caller's x, breakdown (pAp <= 0) leaves the state untouched and stops; all dimensions, all iteration counts.",
      "Gram-matrix abstraction of an inner-product space; A, P self-adjoint; global conjugacy proved by induction step (induction principle trusted); Krylov optimality / n-step termination cited from the proved conjugacy; floats as reals.",
      "contract-based deductive verification (inductive class invariant; real method bodies executed on Gram-domain vectors; z3 QF_NRA)")
claim("C13",
      "Per-step contracts proved on the real GradientMethod._update and PrimalDualHybridGradient._update: conformance to ISTA/FISTA and "
      "Chambolle-Pock (incl. theta/step acceleration rules), in-place updates, sufficient decrease and the per-step rate inequality, the "
      "FISTA Lyapunov function (hinted 3-lemma chain), saddle points are fixed points, Fejer monotonicity of PDHG in the M-norm.",
      "Convexity/L-smoothness/prox characterisation enter as hypotheses at the evaluated points; scalar step sizes only in the proof "
      "(array steps bounded); summation of per-step inequalities to the stated rates and convergence of iterates cited.",
      "contract-based deductive verification (per-step contracts with ghost state; real method bodies on Gram-domain vectors; z3 QF_NRA)")

claim("C15",
      "Counter/frame contracts proved on the real Alg.update/done, every subclass's _done and App.run (loop invariant 0 <= iter <= max_iter, "
      "one update per iteration, run() returns _output()); no subclass assigns self.iter in _update (static frame obligation); per class "
      "'tol = 0 early stop => the state is a fixed point of update' by scenario execution of the real _update on abstract vectors; "
      "power-method normalisation and monotonicity lemma. Two genuine defects are recorded as known findings.",
      "Gram abstraction; deterministic gradf/prox; definiteness of the norm imposed by substitution; SDMM/GerchbergSaxton tol clauses not decided; "
      "canonical loops additionally probed natively (bounded).",
      "contract-based deductive verification (loop invariant + frame obligations + scenario contracts on the real method bodies; z3) with a static AST frame scan")

claim("C01",
      "For every Linop class (38 classes, ~200 parameter variants with symbolic extents/shifts/strides/scalars) the real __init__, _apply and "
      "_adjoint_linop are executed symbolically and the adjoint identity is proved coefficient-wise: coef of x[t] in (Ax)[k] equals the "
      "conjugate of coef of y[k] in (A^H y)[t]; shapes swapped; A.H.H acts like A. Structural classes over arbitrary operands (structural induction).",
      "Array functions enter through their contracts (index maps of C09 specs; abstract kernels keyed by every parameter for fft/nufft/interp/conv/wavelet, "
      "whose own adjointness is C05-C10); rank <= 3, operands <= 3; floats as reals.",
      "contract-based deductive verification (symbolic execution of the real classes on linear-form arrays, one-point rule, z3)")
claim("C02",
      "Frame obligations (no public array function, Linop._apply or Prox._prox modifies an argument or an array of self; _apply/_prox store no state; "
      "H/N cache only adj/normal) decided by a static effect/alias analysis of the real AST; C-linearity of every Linop class proved as "
      "'output is a homogeneous linear form without conjugated input atoms and independent of uninitialised memory'.",
      "numpy view/copy table assumed; callee contracts as in C01; bounded run-time frame probe on sample calls.",
      "contract-based deductive verification (frame clauses by static effect/alias analysis; linear-form obligations by symbolic execution + z3)")
claim("C03",
      "Overloads and Compose/Add/Hstack/Vstack/Diag are proved to act as the matrix expression of their (arbitrary) operands; _hstack_params/_vstack_params "
      "proved for symbolic axis in [-ndim, ndim): shape, prefix-sum split indices, raise iff incompatible; every class's _apply output has the advertised shape; "
      "Compose/Add/apply reject exactly the operands that do not fit.",
      "rank <= 2 for stacking (<= 3 otherwise), operands <= 3; Diag on flattened rank-2 operands only bounded; numpy contracts of pyvc/snp.py.",
      "contract-based deductive verification (symbolic execution of the real classes, z3)")
claim("C04",
      "Every _normal_linop (default H*A and every override) is compared coefficient-wise with A^H(A x) for all classes/variants of C01 except FFT/IFFT "
      "(unitarity of numpy's FFT is assumed, bounded probe) and the Toeplitz NUFFT (accuracy clause, bounded probe with tolerance).",
      "As C01; Toeplitz-embedded NUFFT normal operator and FFT unitarity are not decided deductively.",
      "contract-based deductive verification (symbolic execution, linear forms, z3)")

claim("C11",
      "For soft/hard thresholding, L1Reg, L2Reg (bias, inner prox), L2Proj (axes, bias), LInfProj, BoxConstraint, Conj, Stack, UnitaryTransform, NoOp "
      "and Prox.__call__ the real bodies are executed on value arrays with symbolic extents and the optimality condition / closed form of the "
      "minimiser is proved per element in real/complex arithmetic (soft threshold through a case-split arithmetic lemma); output shape == input shape; "
      "shape mismatches rejected. L1Proj: shape and soft-threshold form; PsdProj: eigh contract (static).",
      "Moreau/separable-sum/unitary-change-of-variables/Cauchy-Schwarz/spectral theorem cited; l1_proj threshold search and complex BoxConstraint bounded only; "
      "numba.vectorize = elementwise map (A-numba); floats as reals.",
      "contract-based deductive verification (symbolic execution of the real bodies on value arrays; z3 incl. nlsat on the relaxed VC)")

claim("C14",
      "The real LinearLeastSquares.__init__/_get_alg/_get_* code is executed over the complete option lattice (530 paths) on abstract operators/vectors: "
      "CG gets the normal equations of the documented objective, GradientMethod the gradient of its smooth part (default step 1/lambda_max(A^HA+lamda I)), "
      "the PDHG triple denotes exactly the documented objective (problem algebra), the ADMM closures are the x/v/multiplier updates of its augmented Lagrangian; "
      "unsupported combinations raise; y and z are never modified (also when A.H returns its argument); the returned array is the one updated.",
      "Class contracts of the algorithms from C12/C13/C15 (convergence to fixed points cited); conjugate of the data term from the table; A.N = A^H A (C04).",
      "contract-based deductive verification (symbolic execution of the real set-up code over the full option lattice; Gram/problem algebra; z3)")

claim("C05",
      "The real fft/ifft/_fftc/_ifftc are executed symbolically on arrays of symbolic extents against the numpy.fft contracts and proved equal, "
      "coefficient by coefficient, to the explicit DFT matrix W(n,(j-c)(k-c)) (c = n//2 centred, 0 otherwise) for every axes subset (incl. negative), "
      "both norms, centred output shapes (through the resize contract), via the index-congruence lemma with explicit witness; dtype postcondition.",
      "numpy fftn/ifftn/fftshift/ifftshift contracts and twiddle periodicity assumed (probed natively against the DFT matrix); unitarity of the "
      "orthonormal DFT assumed (round trip / norm preservation follow from the proved kernel identity); rank <= 2 quick / 3 thorough; FFT rounding not bounded.",
      "contract-based deductive verification (symbolic execution to linear forms with abstract twiddle kernel; rotation rule; congruence lemma; z3)")

claim("C06",
      "The real fourier.nufft / nufft_adjoint (with _apodize, _scale_coord, _get_oversamp_shape) are executed on symbolic image extents, symbolic oversampling "
      "and width, value-array coordinates, against callee contracts for the centred DFT (C05), resize (C09) and Kaiser-Bessel interpolation/gridding as a separable "
      "weight of the coordinate VALUE (C07). Proved for 1-D and 2-D (3-D thorough), 0-1 batch axes: (i) nufft equals, coefficient by coefficient, the mechanism of the "
      "property text - sinh apodisation centred at N//2, scale by N^-1/2, zero-pad to ceil(oversamp N), unnormalised centred DFT, interpolation at c*os/N + os//2 with "
      "beta = pi sqrt((w/os (os-1/2))^2 - 0.8), division by width^ndim; (ii) nufft_adjoint is the EXACT adjoint with the same scaling (conjugate coefficients); "
      "(iii) output shapes; (iv) a coordinate shift by N maps to exactly one oversampled period (periodicity via the interpolation wrap-around).",
      "The accuracy bound itself (3 % at the defaults, 0.3 % at oversamp=2) is a numerical-analysis statement about the Kaiser-Bessel kernel that no contract in reach "
      "decides: it is covered ONLY by the bounded native probe against the exact non-uniform DFT (labelled bounded, not proved). Image extents >= 2 in the deductive part; "
      "definedness of sqrt/sinh/division inside the apodisation not generated (numpy evaluates them in complex arithmetic).",
      "contract-based deductive verification (symbolic execution against callee contracts, summation matching, congruence abstraction + polynomial normal form, z3) + bounded native probe for the accuracy clause")

claim("C07",
      "The real numba loop nests _interpolate1..3/_gridding1..3 and the real wrappers (batch flattening, per-axis width/param, kernel/ndim dispatch) are "
      "summarised (one generic iteration per loop) and proved equal to the documented windowed sum: same summation range |g-c| <= W/2 (ceil/floor), "
      "same wrapped element g mod n, same separable weight with per-axis width/param pairing, accumulation for gridding; _spline_kernel proved to be "
      "the B-spline of order 0/1/2 on [-1,1]; _kaiser_bessel_kernel proved to be the Abramowitz-Stegun 9.8.1/9.8.2 forms.",
      "numba = Python on these kernels (A-numba); loop-nest summarisation rule trusted; kernel enters loop-nest obligations as an abstract function; "
      "A&S approximates I0 (cited); ndim <= 3, <= 1 batch axis, 1 points axis.",
      "contract-based deductive verification (loop-nest summarisation of the real kernels to comprehensions, summation matching, z3)")

claim("C08",
      "Shape/stride arithmetic of the real conv._get_convolve_params proved for D <= 3 with symbolic lengths, strides, channels and batch (output length = "
      "ceil(L/s), L = m+n-1 (full) or |m-n|+1 (valid), exact rejection conditions). The real _convolve, _convolve_data_adjoint and _convolve_filter_adjoint "
      "(reshape to [B, c, ...], channel loops, stride slicing, zero-stuffing, choice of the correlation mode) are executed for D = 1 (2 thorough), symbolic "
      "lengths and strides, 1-2 batch entries / channels, against an ASSUMED scipy.signal contract (full convolution sum, 'valid' window, correlate = convolve "
      "with the conjugated reversed operand): convolve equals the strided multi-channel convolution sum of the property text (linear in the data and in the "
      "filter), both adjoint functions have the conjugate coefficients (exact adjoints) and the requested shapes, including 'valid' with the filter longer "
      "than the data. The Convolve* linops forward identical parameters (C01).",
      "scipy.signal is compiled code outside /repo: its contract is assumed and probed (bounded) on the installed scipy; D = 3 sums and larger channel counts "
      "are covered by the bounded native probe only.",
      "contract-based deductive verification (symbolic execution of the real wrappers against an assumed dependency contract, one-point / divmod-inversion "
      "elimination of the summations, z3) + bounded native probes (definition, adjoints, dependency contract)")

claim("C10",
      "The real wavelet.get_wavelet_shape / fwt / iwt and linop.Wavelet / InverseWavelet are executed for symbolic 1-3-D extents, every axes choice and a symbolic "
      "level against an ASSUMED PyWavelets contract (orthogonal wavelet, zero extension, even extents: coefficient map K real-linear, waverecn = K^T, K^T K = I) and "
      "the resize contract (C09). Proved: fwt's output has exactly the advertised shape (same padded shape / wavelet / mode / axes / level reach PyWavelets on both "
      "routes); every extent handed to PyWavelets is even; iwt(fwt(x)) == x element by element (pad to even, round trip, centre crop); iwt is the adjoint of fwt "
      "coefficientwise; W.H(W(x)) == x and the adjoint obligations for the Linop classes; norm preservation follows by the proved algebra lemma "
      "(adjoint + left inverse => isometry).",
      "PyWavelets itself is compiled code outside /repo: its orthogonality / perfect reconstruction is an assumed contract, probed (bounded) on the installed library for "
      "all haar/db/sym/coif wavelets - never counted as proved. Floating-point round-off not modelled.",
      "contract-based deductive verification of sigpy's wrapper (symbolic execution against an assumed dependency contract, linear-form equality, z3) + bounded native probe of the dependency contract")

claim("C16",
      "The real mri.linop.Sense is executed on symbolic maps / weights / coordinates of symbolic 2-D and 3-D image extents against the callee contracts of "
      "linop.py's real classes; for every coil count <= 3 (4 thorough) and EVERY coil_batch_size 1..C+1 its forward and adjoint results are proved equal, "
      "element by element, to the encoding of the property text sqrt(w)*F(mps*x) and sum_c conj(mps)*F^H(sqrt(w)*y) (F = the DFT/NUFFT callee kernel), so "
      "all batch sizes agree; tseg / transp_nufft options: batched == unbatched. The real SenseRecon / L1WaveletRecon / TotalVariationRecon constructors "
      "(and _estimate_weights) are run with LinearLeastSquares replaced by a recorder: the operator, sqrt(w)-scaled data (unchanged data for the estimated "
      "sampling mask), lamda, proxg, G (= circular finite-difference gradient) that reach it are those of the documented objective.",
      "'Returns the minimiser' is the composition with the LinearLeastSquares (C14), solver (C12/C13), prox (C11) and wavelet-unitarity (C10) contracts and is "
      "only probed natively (bounded: 4x4 / 4x2x2 images, 4 coils, dense reference optimum); coil count concrete; weights without coil axis; comm=None.",
      "contract-based deductive verification (symbolic execution of the real constructors against callee contracts, linear-form equality, z3) + bounded native probe")

claim("C17",
      "The per-voxel invariants are proved on the real code with symbolic voxel grids (2-D, 3-D) and 2-3 coils as value arrays: PowerMethod._update with the "
      "constructor's own `normalize` closure (extracted mechanically) leaves max_eig real >= 0 with max_eig^2 = sum_c |A x|_c^2 and, where it is non-zero, every "
      "voxel's coil vector of unit l2 norm and parallel to A x; EspiritCalib._output makes the first coil real and non-negative, multiplies every coil by the same "
      "unit phase (magnitudes unchanged) where eigenvalue > crop and returns exactly zero where eigenvalue <= crop, and returns alg.max_eig as the eigenvalue map; "
      "the composition lemma gives 'unit norm or exactly zero'. AST obligations pin the wiring PowerMethod(forward, self.mps, norm_func=normalize) -> App.",
      "Eigenvalues <= 1 and recovery of the true maps are properties of the sliding-window calibration operator and of power-iteration convergence: bounded native "
      "probe only (random / birdcage data, 2-8 coils, 2-D/3-D, calib/kernel widths, thresh, crop varied) - never counted as proved. Preconditions: A x non-zero and "
      "first-coil value non-zero at the voxel (else numpy yields NaN; all-zero k-space does).",
      "contract-based deductive verification (symbolic execution of the real update/output code on value arrays, z3 QF_NRA with functional sqrt) + AST obligations + bounded native probe")

claim("C18",
      "The real poisson() is executed symbolically (image/calibration extents, accel, tol symbolic; the numba kernel replaced by its contract): on every "
      "returning path the mask is binary, has the requested shape/dtype, |nx*ny/sum(mask)-accel| < tol for exactly the returned mask, the calibration block "
      "survives corner cropping whenever n - calib >= 2 (known finding otherwise), for calib = 0 no sample lies outside the inscribed ellipse, the global RNG "
      "state is saved first and restored before returning; every non-returning path raises ValueError. Static obligations on _poisson: the mask is only "
      "ever written with the constant 1, seeded from the argument; poisson reads no other global state.",
      "Termination of the bisection is NOT proved (a non-termination defect was found by the bounded probe and fixed); numba RNG separate from numpy's (assumed, probed); "
      "non-empty mask and calib < extent preconditions.",
      "contract-based deductive verification (symbolic execution with one generic loop iteration, static frame obligations, z3) + bounded native probe")

claim("C19",
      "For abrm, abrm_nd, abrm_hp and optcont.blochsim the real time loop is treated with an inductive invariant (loop rewritten to one generic iteration): "
      "the step is a linear map of (alpha, beta) whose 2x2 coefficient matrix has orthogonal columns of unit norm (abrm_hp, blochsim) resp. equal norm <= 1 "
      "(abrm, abrm_nd with the eps regulariser), does not mix alpha and beta for a zero RF sample, the initial state is (1, 0), and the epilogue is a unitary "
      "diagonal map; with the algebra lemma (proved) this gives |alpha|^2+|beta|^2 = 1 (<= 1) for every waveform, length and position, and composition.",
      "abrm_ptx and the inverse-SLR round trip are bounded-only (native probe); the lower bound of the eps contraction is bounded-only; cos/sin via c^2+s^2=1.",
      "contract-based deductive verification (inductive loop invariant on the real loop body executed on linear-form state; z3 QF_NRA) + bounded native probe")
