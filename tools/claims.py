# table of claimed properties / not-applicable reasons (exec'd by gen_manifest.py)
_NOTYET = "contract set for this property is not built yet in this session (see DESIGN.md section 11 for the build order); no claim is made"
for _i in range(1, 21):
    NA["C%02d" % _i] = _NOTYET

def claim(pid, text, note, technique):
    CLAIMS[pid] = dict(text=text, note=note, technique=technique)
    NA.pop(pid, None)

claim("C09",
      "Elementwise postconditions taken from the property statement are proved for the real bodies of util.resize/flip/circshift/"
      "downsample/upsample for all extents, shifts, factors and element values (rank is the only structural bound).",
      "Assumes the numpy basic-slicing/reshape/roll/zeros contracts stated in pyvc/snp.py, integers mathematical, rank <= 3.",
      "contract-based deductive verification (symbolic execution of the real AST to VCs, z3/cvc5)")

claim("C20",
      "trap_grad and min_trap_grad are executed symbolically on real-valued area/gmax/dgdt/dt (all positive): start/end zero, exact "
      "area (total resp. flat top), amplitude <= gmax and slew <= dgdt*dt are proved for every sample index through lemma chains "
      "(peak bound, samples within peak, step bound); definedness of every division / max is an obligation. spokes_grad only bounded.",
      "Floats as reals; numpy linspace/ones/concatenate/sum/max closed forms assumed; spokes_grad covered by the bounded native probe only.",
      "contract-based deductive verification (symbolic execution of the real AST to nonlinear real/integer VCs, z3 incl. nlsat on the integer-relaxed VC)")

claim("C12",
      "Class invariant of ConjugateGradient proved inductively on the real __init__/_update/_done run on abstract vectors: r = b - A x, "
      "rzold = <r,Pr>, resid = sqrt(rzold), p = z + beta p_old with beta = rz_new/rz_old, local conjugacy L1-L3, exact A-norm error decrease "
      "rz^2/pAp, in-place update of the caller's x, breakdown (pAp <= 0) leaves the state untouched and stops; all dimensions, all iteration counts.",
      "Gram-matrix abstraction of an inner-product space; A, P self-adjoint; Krylov optimality / n-step termination cited from the proved local invariants; floats as reals.",
      "contract-based deductive verification (inductive class invariant; real method bodies executed on Gram-domain vectors; z3 QF_NRA)")
claim("C13",
      "Per-step contracts proved on the real GradientMethod._update and PrimalDualHybridGradient._update: conformance to ISTA/FISTA and "
      "Chambolle-Pock (incl. theta/step acceleration rules), in-place updates, sufficient decrease and the per-step rate inequality, the "
      "FISTA Lyapunov function (hinted 3-lemma chain), saddle points are fixed points, Fejer monotonicity of PDHG in the M-norm.",
      "Convexity/L-smoothness/prox characterisation enter as hypotheses at the evaluated points; scalar step sizes only in the proof "
      "(array steps bounded); summation of per-step inequalities to the stated rates and convergence of iterates cited.",
      "contract-based deductive verification (per-step contracts with ghost state; real method bodies on Gram-domain vectors; z3 QF_NRA)")

claim("C15",
      "Counter/frame contracts proved on the real Alg.update/done, every subclass's _done and App.run (loop invariant 0 <= iter <= max_iter, "
      "one update per iteration, run() returns _output()); no subclass assigns self.iter in _update (static frame obligation); per class "
      "'tol = 0 early stop => the state is a fixed point of update' by scenario execution of the real _update on abstract vectors; "
      "power-method normalisation and monotonicity lemma. Two genuine defects are recorded as known findings.",
      "Gram abstraction; deterministic gradf/prox; definiteness of the norm imposed by substitution; SDMM/GerchbergSaxton tol clauses not decided; "
      "canonical loops additionally probed natively (bounded).",
      "contract-based deductive verification (loop invariant + frame obligations + scenario contracts on the real method bodies; z3) with a static AST frame scan")
