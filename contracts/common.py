"""Shared helpers for the sidecar contract modules."""
import os
import sys
import z3

ROOT = os.path.dirname(os.path.dirname(os.path.abspath(__file__)))
if ROOT not in sys.path:
    sys.path.insert(0, ROOT)

from pyvc import core, snp, src  # noqa: E402
from pyvc.core import Sym, S, explore, Obligation, within  # noqa: E402
from pyvc.run import Job, check_obligations, cover, native  # noqa: E402


class Mod:
    """module look-alike over a namespace dict"""

    def __init__(self, ns, name):
        object.__setattr__(self, "_ns", ns)
        object.__setattr__(self, "_name", name)

    def __getattr__(self, k):
        try:
            return self._ns[k]
        except KeyError:
            raise core.Unsupported("%s.%s is not available in the verification namespace" % (self._name, k))

    def __setattr__(self, k, v):
        self._ns[k] = v


class _Config:
    cupy_enabled = False
    cudnn_enabled = False
    nccl_enabled = False
    mpi4py_enabled = False
    pytorch_enabled = False


CONFIG = _Config()


def base_ns(**extra):
    ns = dict(np=snp.NP, backend=snp.BACKEND, config=CONFIG)
    ns.update(snp.builtins_ns())
    ns.update(extra)
    return ns


def load(rel, **extra):
    ns = base_ns(**extra)
    src.load_module(rel, ns)
    return Mod(ns, rel)


def record(rel, *quals):
    s = src.Source.get(rel)
    return [s.record(q) for q in quals]


def ints(prefix, n):
    return [Sym(z3.Int("%s%d" % (prefix, d))) for d in range(n)]


def box(idx, shape):
    cs = []
    for i, n in zip(idx, shape):
        cs += [core._lift(i) >= 0, core._lift(i) < core._lift(n)]
    return cs


def path_obligations(prefix, results, post, instance=None, fn_record=None, expect_raise=None):
    """turn explored paths into obligations.
    post(path_result) -> list of (name, extra_hyps, goal) built inside the path's context.
    If post has to take a decision that the path condition leaves open (lazily evaluated array elements do), the path is
    re-run from its decision prefix with post INSIDE the exploration, so every branch gets its own obligations."""
    obs, covers = [], []

    def run_post(r):
        """inside r.ctx: returns (items, facts, error)"""
        items, facts = [], []
        try:
            for (name, extra, goal) in post(r):
                if name == "@fact":      # an instance of a precondition of the contract (e.g. P is PSD at this vector)
                    facts.append(goal)
                    continue
                items.append((name, list(extra), goal, list(facts)))
        except core.ForkInPost:
            raise
        except core.Unsupported as e:
            return items, facts, str(e)
        return items, facts, None

    def emit(r, pname, path_idx, res):
        items, facts, err = res
        meta = dict(instance=instance, path=path_idx)
        if fn_record:
            meta.update(function=fn_record["function"], file=fn_record["file"], lines=fn_record["lines"], sha256=fn_record["sha256"])
        hy = r.ctx.hyps()          # read after post() ran, so definitional constraints it introduced are included
        for (name, extra, goal, fs) in items:
            obs.append(Obligation("%s/%s" % (pname, name), hy + list(extra) + fs, goal, dict(meta, goal=name)))
        if err is not None:
            # keep the side obligations generated so far; the path itself stays undecided (engine limit)
            covers.append(dict(name="%s/engine-limit" % pname, status="engine-error", backend="-", time_s=0.0, model=None, meta=dict(meta, error=err)))
        for j, (sname, hyps, goal) in enumerate(r.ctx.side):
            obs.append(Obligation("%s/%s#%d" % (pname, sname, j), list(hyps) + facts, goal, dict(meta, kind="side")))
        covers.append(cover(pname, hy + facts))

    for i, r in enumerate(results):
        pname = "%s/p%d" % (prefix, i)
        n_dec = len(r.decisions)
        try:
            with within(r.ctx):
                res = run_post(r)
            emit(r, pname, i, res)
        except core.ForkInPost:
            fn = getattr(r, "fn", None)
            if fn is None:
                raise
            subs = core.explore(fn, max_paths=128, prefixes=[r.decisions[:n_dec]], post=run_post)
            for j, r2 in enumerate(subs):
                emit(r2, "%s.%d" % (pname, j), i, r2.post_value)
    return obs, covers


def as_bool(v):
    """python bool or SymBool -> z3 Bool"""
    if isinstance(v, bool):
        return z3.BoolVal(v)
    return core._lb(v)


def model_int(model, name, default=None):
    if model is None or name not in model:
        return default
    try:
        return int(model[name])
    except Exception:
        return default


def congruence_lemmas(tag, R, P, n, D, ctx_hyps):
    """R - P == D*n  =>  (R mod n) == (P mod n), packaged for the solver:
       (i)   the polynomial identity R - P == D*n under the current definitions (explicit witness D from the sidecar);
       (ii)  uniqueness of the remainder for OPAQUE R, P, D (products hidden): proved once per use, instant;
       returns (obligations [(name, hyps, goal)], conclusion) where conclusion is  r_R == r_P  over the memoised
       quotient/remainder witnesses of R and P - to be used as a hypothesis of the main goal."""
    qR, rR = core._divmod_global(z3.simplify(R), n)
    qP, rP = core._divmod_global(z3.simplify(P), n)
    Rv, Pv, Dv = z3.Int("opaque!R" + tag), z3.Int("opaque!P" + tag), z3.Int("opaque!D" + tag)
    obs = [("lemma:%s:identity R-P==D*n" % tag, list(ctx_hyps), R - P == D * n),
           ("lemma:%s:remainder-unique(opaque)" % tag,
            [n >= 1, Rv == qR * n + rR, rR >= 0, rR < n, Pv == qP * n + rP, rP >= 0, rP < n, Rv - Pv == Dv * n], rR == rP)]
    return obs, rR == rP
