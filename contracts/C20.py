"""C20 - trapezoid gradient designers meet area, amplitude and slew limits.
Contracts on the real trap_grad / min_trap_grad of sigpy/mri/rf/trajgrad.py, nonlinear real/integer arithmetic."""
import z3
from .common import *  # noqa: F401,F403
from pyvc.snp import SArr, LF, C

TG = "sigpy/mri/rf/trajgrad.py"
ASSUMPTIONS = [
    "floats are reals (no rounding): 'integrates to exactly the requested area' is exact equality over the reals",
    "numpy contracts: linspace(0,r,num=r+1)[k] = k; ones; concatenate; scalar broadcasting; sum of an affine sequence "
    "a+bk over k<n is na + b n(n-1)/2 (closed forms, assumed); max of a constant array; ceil/floor by their defining inequalities",
    "np.max of an empty array raises (numpy) -> stated as a definedness obligation",
    "area, gmax, dgdt, dt > 0",
]
TRUSTED = ["closed-form summation of piecewise-affine sequences in pyvc/snp.py"]
BOUNDS = {}
NOT_DECIDED = ["spokes_grad: assembled from trap_grad/min_trap_grad pieces by Python list surgery; covered by the bounded native probe only"]
TIMEOUT_MS = {"quick": 20000, "thorough": 120000}


def functions():
    return record(TG, "trap_grad", "min_trap_grad", "spokes_grad")


def _ns():
    ns = base_ns(math=None, nb=None, integrate=None, interpolate=None)
    src.load_module(TG, ns, only=["trap_grad", "min_trap_grad"])
    return Mod(ns, TG)


def _params():
    area, gmax, dgdt, dt = [Sym(z3.Real(n)) for n in ("area", "gmax", "dgdt", "dt")]
    return area, gmax, dgdt, dt


def _assume_pos(ps, boxed):
    for p in ps:
        core.assume(p > 0)
    if boxed:
        area, gmax, dgdt, dt = ps
        core.assume(core.And(area >= S(10) ** -6, area <= 1, gmax >= S(1) / 10, gmax <= 10, dgdt >= 100, dgdt <= 100000,
                             dt >= S(10) ** -6, dt <= S(10) ** -4))


def _val(lf):
    return lf.value().re


def _common_posts(trap, gmax, dgdt, dt, ramppts):
    """start/end zero, amplitude, slew for a (1, n) waveform"""
    n = trap.shape[1]
    k = z3.Int("k")
    e = lambda i: _val(trap.elem((z3.IntVal(0), i)))
    obs = [("shape-1xn", [], z3.BoolVal(isinstance(trap.shape[0], int) and trap.shape[0] == 1)),
           ("nonempty", [], core._lift(n) >= 2),
           ("starts-at-zero", [], e(z3.IntVal(0)) == 0),
           ("ends-at-zero", [], e(core._lift(n) - 1) == 0),
           ]
    # amplitude and slew, each through a lemma chain (sidecar hints; every lemma is its own obligation):
    #   peak := sample at index ramppts;  (L1) 0 <= peak <= gmax;  (L2) every sample lies in [0, peak]
    #   (S1) peak <= ramppts*dgdt*dt;     (S2) successive differences are at most peak/ramppts in magnitude
    rp = core._lift(ramppts)
    peak = e(rp)
    obs += [("amplitude/L1:peak<=gmax", [], z3.And(peak >= 0, peak <= gmax.t)),
            ("amplitude/L2:samples-within-peak", [k >= 0, k < core._lift(n)], z3.And(e(k) >= 0, e(k) <= peak)),
            ("amplitude<=gmax", [k >= 0, k < core._lift(n), peak >= 0, peak <= gmax.t, e(k) >= 0, e(k) <= peak],
             z3.And(e(k) <= gmax.t, e(k) >= -gmax.t)),
            ("slew/S0:ramppts>=1", [], rp >= 1),
            ("slew/S1:peak<=ramppts*dgdt*dt", [], peak <= z3.ToReal(rp) * dgdt.t * dt.t),
            ("slew/S2:steps-within-peak/ramppts", [k >= 0, k + 1 < core._lift(n)],
             z3.And((e(k + 1) - e(k)) * z3.ToReal(rp) <= peak, (e(k) - e(k + 1)) * z3.ToReal(rp) <= peak)),
            ("slew<=dgdt*dt", [k >= 0, k + 1 < core._lift(n), rp >= 1, peak <= z3.ToReal(rp) * dgdt.t * dt.t,
                               (e(k + 1) - e(k)) * z3.ToReal(rp) <= peak, (e(k) - e(k + 1)) * z3.ToReal(rp) <= peak],
             z3.And(e(k + 1) - e(k) <= dgdt.t * dt.t, e(k) - e(k + 1) <= dgdt.t * dt.t))]
    return obs


def job_trap_grad(boxed, timeout_ms):
    rec = record(TG, "trap_grad")[0]
    m = _ns()

    def run():
        ps = _params()
        _assume_pos(ps, boxed)
        return m.trap_grad(*ps)
    results = explore(run)
    inst = "boxed" if boxed else "all-positive"

    def post(r):
        area, gmax, dgdt, dt = _params()
        if r.kind != "return":
            return [("no-exception", [], z3.BoolVal(False))]
        trap, ramppts = r.value
        obs = _common_posts(trap, gmax, dgdt, dt, ramppts)
        tot = snp.sum_(trap)
        obs.append(("integrates-to-area", [], core._lift(tot) * dt.t == area.t))
        return obs
    obs, covers = path_obligations("C20/trap_grad/%s" % inst, results, post, instance=inst, fn_record=rec)
    return check_obligations(obs, timeout_ms) + covers


def job_min_trap_grad(boxed, timeout_ms):
    rec = record(TG, "min_trap_grad")[0]
    m = _ns()

    def run():
        ps = _params()
        _assume_pos(ps, boxed)
        return m.min_trap_grad(*ps)
    results = explore(run)
    inst = "boxed" if boxed else "all-positive"

    def post(r):
        area, gmax, dgdt, dt = _params()
        if r.kind != "return":
            return [("no-exception", [], z3.BoolVal(False))]
        trap, ramppts = r.value
        obs = _common_posts(trap, gmax, dgdt, dt, ramppts)
        n = core._lift(trap.shape[1])
        rp = core._lift(ramppts)
        nflat = n - 2 * (rp + 1)
        k = z3.Int("k")
        amp = z3.Real("flat_amp")
        e = lambda i: _val(trap.elem((z3.IntVal(0), i)))
        obs.append(("flat-top-nonempty", [], nflat >= 1))
        obs.append(("flat-top-constant-with-requested-area", [k >= rp + 1, k < rp + 1 + nflat, nflat >= 1],
                    e(k) * z3.ToReal(nflat) * dt.t == area.t))
        return obs
    obs, covers = path_obligations("C20/min_trap_grad/%s" % inst, results, post, instance=inst, fn_record=rec)
    return check_obligations(obs, timeout_ms) + covers


def probes(tier, seed):
    res = native("probe.py", dict(prop="C20", tier=tier, seed=seed), timeout=1500)
    if isinstance(res, dict) and res.get("error"):
        return [dict(name="native-probe", error=res["error"], cases=0)]
    return res


def jobs(tier):
    M = "contracts.C20"
    js = [Job(M, "job_trap_grad", boxed=False), Job(M, "job_min_trap_grad", boxed=False)]
    if tier == "thorough":
        js += [Job(M, "job_trap_grad", boxed=True), Job(M, "job_min_trap_grad", boxed=True)]
    return js


def _real(model, name, default):
    from fractions import Fraction
    if not model or name not in model:
        return default
    v = model[name].replace("?", "")
    try:
        return float(Fraction(v))
    except Exception:
        try:
            return float(v)
        except Exception:
            return default


def replay_request(res):
    m = res.get("model") or {}
    fn = "trajgrad.trap_grad" if "/trap_grad/" in res["name"] and "min_trap" not in res["name"] else "trajgrad.min_trap_grad"
    return dict(fn=fn, args=dict(area=_real(m, "area", 1e-3), gmax=_real(m, "gmax", 1.0), dgdt=_real(m, "dgdt", 1e4), dt=_real(m, "dt", 1e-5)),
                script="replay.py")
