"""C13 - proximal gradient (ISTA/FISTA) and primal-dual hybrid gradient: per-step contracts on the real `_update`
bodies of sigpy.alg.GradientMethod and sigpy.alg.PrimalDualHybridGradient, executed on abstract vectors."""
import z3
from .common import *  # noqa: F401,F403
from .galg import load_alg, FnStub, ALG, UTIL
from pyvc import gram

ASSUMPTIONS = [
    "f convex and L-smooth, g convex (hypotheses of the property): they enter as the three standard inequalities instantiated at "
    "the points the real code evaluates; prox characterisation (v - p)/alpha in subdiff g(p)",
    "alpha*L <= 1; tau, sigma > 0 scalars (array-valued step sizes are outside the Gram abstraction: bounded probe only)",
    "A and AH form an adjoint pair: <A x, u> = <x, AH u>",
    "cited, not proved: t_k >= (k+1)/2 and the summation of the per-step inequalities into the O(1/k), O(1/k^2) rates; "
    "convergence of the PDHG iterates (limit argument); the accelerated PDHG rate",
]
TRUSTED = ["Gram-matrix abstraction (pyvc/gram.py)"]
BOUNDS = {}
NOT_DECIDED = ["convergence of the iterates themselves (limit argument)", "array-valued tau/sigma (bounded probe only)",
               "adequacy of default step sizes (tau*sigma*||A||^2 <= 1 is a precondition)"]
TIMEOUT_MS = {"quick": 30000, "thorough": 180000}


def functions():
    return record(ALG, "GradientMethod.__init__", "GradientMethod._update", "PrimalDualHybridGradient.__init__",
                  "PrimalDualHybridGradient._update") + record(UTIL, "axpy", "xpay")


def probes(tier, seed):
    res = native("probe.py", dict(prop="C13", tier=tier, seed=seed), timeout=1500)
    if isinstance(res, dict) and res.get("error"):
        return [dict(name="native-probe", error=res["error"], cases=0)]
    return res


def replay_request(res):
    import sys
    sys.path.insert(0, ROOT + "/native")
    import probe_C13
    want = "alg.gm" if "GradientMethod" in res["name"] else "alg.pdhg"
    return dict(fn="multi", args=dict(cases=[c for c in probe_C13.cases("quick", 0) if c["fn"] == want]))


# ------------------------------------------------------------------ gradient method
def _gm_state(alg, accelerate, with_prox):
    sp = gram.Space()
    x = sp.base("x")
    alpha = Sym(z3.Real("alpha"))
    core.assume(alpha > 0)
    gradf = FnStub(sp, "gf")
    proxg = FnStub(sp, "px") if with_prox else None
    gm = object.__new__(alg.GradientMethod)
    gm.gradf, gm.alpha, gm.accelerate, gm.proxg, gm.x = gradf, alpha, accelerate, proxg, x
    gm.tol = 0
    gm.device = gram.GDEV
    st = dict(sp=sp, x0=x, x_old=x.copy(), alpha=alpha, gradf=gradf, proxg=proxg)
    if accelerate:
        z = sp.base("z")
        t = Sym(z3.Real("t"))
        core.assume(t >= 1)
        gm.z, gm.t = z, t
        st.update(z0=z, z_old=z.copy(), t=t)
    gm.resid = core.INF
    gm.max_iter, gm.iter = Sym(z3.Int("max_iter")), Sym(z3.Int("iter"))
    return gm, st


def job_gm_init(accelerate, timeout_ms):
    rec = record(ALG, "GradientMethod.__init__")[0]
    alg = load_alg()

    def run():
        sp = gram.Space()
        x = sp.base("x")
        gm = alg.GradientMethod(FnStub(sp, "gf"), x, Sym(z3.Real("alpha")), proxg=None, accelerate=accelerate, max_iter=Sym(z3.Int("mi")))
        return gm, x
    results = explore(run)

    def post(r):
        if r.kind != "return":
            return [("no-exception", [], z3.BoolVal(False))]
        gm, x = r.value
        obs = [("F:x-is-the-callers-array", [], z3.BoolVal(gm.x is x)), ("iter==0", [], z3.BoolVal(gm.iter == 0))]
        if accelerate:
            obs += [("z0==x0-and-distinct-object", [], z3.And(gm.z.same_vector(x), z3.BoolVal(gm.z is not gm.x))),
                    ("t0==1", [], z3.BoolVal(gm.t == 1))]
        return obs
    inst = "accelerate=%s" % accelerate
    obs, covers = path_obligations("C13/GradientMethod.__init__/%s" % inst, results, post, instance=inst, fn_record=rec)
    return check_obligations(obs, timeout_ms) + covers


def job_gm_update(accelerate, with_prox, timeout_ms):
    rec = record(ALG, "GradientMethod._update")[0]
    alg = load_alg()

    def run():
        gm, st = _gm_state(alg, accelerate, with_prox)
        gm._update()
        return gm, st
    results = explore(run)
    inst = "accelerate=%s,proxg=%s" % (accelerate, with_prox)

    def post(r):
        if r.kind != "return":
            return [("no-exception", [], z3.BoolVal(False))]
        gm, st = r.value
        sp, alpha = st["sp"], st["alpha"]
        y = st["z_old"] if accelerate else st["x_old"]          # the point the step is taken from
        gcalls = st["gradf"].calls
        obs = [("F:x-updated-in-place", [], z3.BoolVal(gm.x is st["x0"])),
               ("conf:gradient-evaluated-once-at-the-extrapolated-point", [], z3.And(z3.BoolVal(len(gcalls) == 1), gcalls[0][1].same_vector(y)) if gcalls else z3.BoolVal(False))]
        if not gcalls:
            return obs
        g = gcalls[0][2]
        v = y - g * alpha
        if with_prox:
            pc = st["proxg"].calls
            ok = len(pc) == 1
            obs.append(("conf:prox-called-with-step-alpha-at-y-alpha*grad", [], z3.And(z3.BoolVal(ok), core._lift(pc[0][0][0]) == alpha.t, pc[0][1].same_vector(v)) if ok else z3.BoolVal(False)))
            if not ok:
                return obs
            xn = pc[0][2]
            v_act, a_act = pc[0][1], Sym(core._lift(pc[0][0][0]))
        else:
            xn = v
            v_act, a_act = gm.x, alpha
        obs.append(("conf:x+==prox(y-alpha*grad)", [], gm.x.same_vector(xn)))
        d = gm.x - st["x_old"]
        dd = sp.ip(d, d)
        obs.append(("@fact", [], dd.t >= 0))
        obs.append(("conf:resid==|x+-x|/alpha", [], z3.And(core._lift(gm.resid) >= 0, (core._lift(gm.resid) * alpha.t) * (core._lift(gm.resid) * alpha.t) == dd.t)))
        if accelerate:
            t, tn = st["t"], Sym(core._lift(gm.t))
            obs += [("F:z-updated-in-place", [], z3.BoolVal(gm.z is st["z0"])),
                    ("conf:t+^2-t+==t^2,t+>=1", [], z3.And(tn.t * tn.t - tn.t == t.t * t.t, tn.t >= 1)),
                    ("conf:z+==x++((t-1)/t+)(x+-x)", [], gm.z.same_vector(gm.x + d * ((t - 1) / tn)))]
        # ---- descent / rate inequalities: hypotheses are the property's own (convex, L-smooth, prox characterisation)
        L = z3.Real("L")
        fy, fn_, fo, fs, Gn, Go, Gs = z3.Reals("f_y f_new f_old f_star g_new g_old g_star")
        xs = sp.base("xs")
        dy = gm.x - y
        s = (v_act - gm.x) * (1 / a_act)                # in subdiff (step*g)(x+)/step by the prox characterisation of the ACTUAL call
        if not with_prox:
            Gn = Go = Gs = z3.RealVal(0)
        hyp = [L > 0, alpha.t * L <= 1, sp.ip(dy, dy).t >= 0,
               fn_ <= fy + sp.ip(g, dy).t + L / 2 * sp.ip(dy, dy).t,          # L-smoothness from y to x+
               fo >= fy + sp.ip(g, st["x_old"] - y).t,                      # convexity of f at y towards x_old
               fs >= fy + sp.ip(g, xs - y).t,                               # ... towards a minimiser x*
               Go >= Gn + sp.ip(s, st["x_old"] - gm.x).t,                   # convexity of g at x+ (s is a subgradient)
               Gs >= Gn + sp.ip(s, xs - gm.x).t]
        Fn, Fo, Fs = fn_ + Gn, fo + Go, fs + Gs
        if not accelerate:
            hyp1 = hyp + [fo == fy]
            obs += [("descent:F(x+)<=F(x)-(1/alpha-L/2)|x+-x|^2", hyp1, z3.And(Fn <= Fo - (1 / alpha.t - L / 2) * dd.t, Fn <= Fo)),
                    ("rate-step:F(x+)-F*<=(|x-x*|^2-|x+-x*|^2)/(2alpha)", hyp1,
                     Fn - Fs <= (sp.ip(st["x_old"] - xs, st["x_old"] - xs).t - sp.ip(gm.x - xs, gm.x - xs).t) / (2 * alpha.t))]
            # ghost accumulator: S_k = sum_{i<=k}(F(x_i)-F*) <= (|x0-x*|^2 - |x_k-x*|^2)/(2 alpha)  (preservation is the line above)
            S, D0 = z3.Reals("ghost_sum dist0")
            inv = S <= (D0 - sp.ip(st["x_old"] - xs, st["x_old"] - xs).t) / (2 * alpha.t)
            step = Fn - Fs <= (sp.ip(st["x_old"] - xs, st["x_old"] - xs).t - sp.ip(gm.x - xs, gm.x - xs).t) / (2 * alpha.t)
            obs.append(("rate-invariant:sum-of-gaps<=|x0-x*|^2/(2alpha)-preserved", [alpha.t > 0, inv, step],
                        S + (Fn - Fs) <= (D0 - sp.ip(gm.x - xs, gm.x - xs).t) / (2 * alpha.t)))
        else:
            # FISTA Lyapunov function  2 alpha t^2 (F(x_k)-F*) + |t x_k - (t-1) x_{k-1} - x*|^2  is non-increasing.
            # ghost state: x_{k-1} with  z = x_k + ((t_prev-1)/t)(x_k - x_{k-1})  and  t^2 - t = t_prev^2
            t, tn = st["t"], Sym(core._lift(gm.t))
            xm = sp.base("xm")
            tp = z3.Real("t_prev")
            ghost = [tp >= 1, t.t * t.t - t.t == tp * tp, y.same_vector(st["x_old"] + (st["x_old"] - xm) * (Sym(tp) - 1) * (1 / t))]
            # the ghost relation is a hypothesis about the entry state: impose it by substitution z := x + ((tp-1)/t)(x - xm)
            yy = st["x_old"] + (st["x_old"] - xm) * ((Sym(tp) - 1) / t)
            # re-express everything that mentions base z through yy: done by proving for the state where z_old == yy
            # (the real update was run with z a free base vector; linearity lets us substitute afterwards)
            sub = _subst_base(sp, "z", yy)
            gx, x_new = sub(g), sub(gm.x)
            dyy = x_new - yy
            ss = (sub(v_act) - x_new) * (1 / a_act)
            hl = [L > 0, alpha.t * L <= 1, alpha.t > 0, t.t >= 1, tn.t >= 1, tn.t * tn.t - tn.t == t.t * t.t, tp >= 1, t.t * t.t - t.t == tp * tp,
                  sp.ip(dyy, dyy).t >= 0,
                  fn_ <= fy + sp.ip(gx, dyy).t + L / 2 * sp.ip(dyy, dyy).t,
                  fo >= fy + sp.ip(gx, st["x_old"] - yy).t, fs >= fy + sp.ip(gx, xs - yy).t,
                  Go >= Gn + sp.ip(ss, st["x_old"] - x_new).t, Gs >= Gn + sp.ip(ss, xs - x_new).t]
            Dk = Fo - Fn - sp.ip(dyy, dyy).t / (2 * alpha.t) - sp.ip(yy - st["x_old"], dyy).t / alpha.t
            Ds = Fs - Fn - sp.ip(dyy, dyy).t / (2 * alpha.t) - sp.ip(yy - xs, dyy).t / alpha.t
            sk, ss_ = z3.Reals("slack_k slack_s")
            vk, vn = Fo - Fs, Fn - Fs
            # u_k = t_{k-1} x_k - (t_{k-1}-1) x_{k-1} - x*  with t_{k-1} = t_prev ... in Beck-Teboulle indexing the state t is t_k
            uk = st["x_old"] * Sym(tp) - xm * (Sym(tp) - 1) - xs
            un = x_new * t - st["x_old"] * (t - 1) - xs
            obs += [("lyapunov/lemma@x_k", hl, Dk >= 0), ("lyapunov/lemma@x*", hl, Ds >= 0),
                    ("lyapunov/identity", hl + [sk == Dk, ss_ == Ds],
                     2 * alpha.t * (tp * tp * vk - t.t * t.t * vn) - (sp.ip(un, un).t - sp.ip(uk, uk).t) == 2 * alpha.t * (tp * tp * sk + t.t * ss_)),
                    ("lyapunov/non-increasing", [alpha.t > 0, tp >= 1, t.t >= 1, sk >= 0, ss_ >= 0,
                                                 2 * alpha.t * (tp * tp * vk - t.t * t.t * vn) - (sp.ip(un, un).t - sp.ip(uk, uk).t) == 2 * alpha.t * (tp * tp * sk + t.t * ss_)],
                     2 * alpha.t * t.t * t.t * vn + sp.ip(un, un).t <= 2 * alpha.t * tp * tp * vk + sp.ip(uk, uk).t)]
        return obs
    obs, covers = path_obligations("C13/GradientMethod._update/%s" % inst, results, post, instance=inst, fn_record=rec)
    return check_obligations(obs, timeout_ms) + covers


def _subst_base(sp, name, value):
    """linear substitution base `name` := value in a GVec (word . name -> word . value)"""
    def sub(v):
        out = sp.zero()
        for (w, b, s), c in v.d.items():
            if b == name:
                term = value
                for o in reversed(w):
                    term = gram.Op(sp, o)(term)
                out = out + term * Sym(c)
            else:
                out = out + gram.GVec(sp, {(w, b, s): c})
        return out
    return sub


# ------------------------------------------------------------------ primal-dual hybrid gradient
def _pdhg_state(alg, mode):
    """mode: 'plain' (gamma_primal = gamma_dual = 0), 'primal' (gamma_primal > 0), 'dual' (gamma_dual > 0)"""
    sp = gram.Space()
    A = sp.op("A", dom=0, rng=1, adjoint="AH")
    AH = A.H
    x, u, x_ext = sp.base("x", 0), sp.base("u", 1), sp.base("xe", 0)
    tau, sigma, theta = Sym(z3.Real("tau")), Sym(z3.Real("sigma")), Sym(z3.Real("theta"))
    core.assume(core.And(tau > 0, sigma > 0))
    gp, gd = Sym(z3.Real("gamma_primal")), Sym(z3.Real("gamma_dual"))
    if mode == "plain":
        gp = gd = 0
    elif mode == "primal":
        core.assume(gp > 0)
        gd = 0
    else:
        core.assume(gd > 0)
        gp = 0
    proxfc, proxg = FnStub(sp, "pf", 1), FnStub(sp, "pg", 0)
    pd = object.__new__(alg.PrimalDualHybridGradient)
    pd.proxfc, pd.proxg, pd.tol, pd.A, pd.AH = proxfc, proxg, 0, A, AH
    pd.u, pd.x, pd.x_ext = u, x, x_ext
    pd.tau, pd.sigma, pd.theta = tau, sigma, theta
    pd.gamma_primal, pd.gamma_dual = gp, gd
    pd.x_device = pd.u_device = gram.GDEV
    pd.tau_min, pd.sigma_min = tau, sigma            # scalar steps: amin(abs(tau)) = tau
    pd.resid = core.INF
    pd.max_iter, pd.iter = Sym(z3.Int("max_iter")), Sym(z3.Int("iter"))
    st = dict(sp=sp, A=A, AH=AH, x0=x, u0=u, xe0=x_ext, x_old=x.copy(), u_old=u.copy(), xe_old=x_ext.copy(), tau=tau, sigma=sigma,
              theta=theta, gp=gp, gd=gd, proxfc=proxfc, proxg=proxg)
    return pd, st


def job_pdhg_update(mode, timeout_ms):
    rec = record(ALG, "PrimalDualHybridGradient._update")[0]
    alg = load_alg()

    def run():
        pd, st = _pdhg_state(alg, mode)
        pd._update()
        return pd, st
    results = explore(run)
    inst = "mode=%s" % mode

    def post(r):
        if r.kind != "return":
            return [("no-exception", [], z3.BoolVal(False))]
        pd, st = r.value
        sp, A, AH, tau, sigma = st["sp"], st["A"], st["AH"], st["tau"], st["sigma"]
        fc, gc = st["proxfc"].calls, st["proxg"].calls
        obs = [("F:x,u,x_ext-updated-in-place", [], z3.BoolVal(pd.x is st["x0"] and pd.u is st["u0"] and pd.x_ext is st["xe0"])),
               ("conf:one-dual-and-one-primal-prox-call", [], z3.BoolVal(len(fc) == 1 and len(gc) == 1))]
        if len(fc) != 1 or len(gc) != 1:
            return obs
        un, xn = fc[0][2], gc[0][2]
        obs += [("conf:u+==prox_{sigma f*}(u+sigma*A(x_ext))", [],
                 z3.And(core._lift(fc[0][0][0]) == sigma.t, fc[0][1].same_vector(st["u_old"] + A(st["xe_old"]) * sigma), pd.u.same_vector(un))),
                ("conf:x+==prox_{tau g}(x-tau*AH(u+))", [],
                 z3.And(core._lift(gc[0][0][0]) == tau.t, gc[0][1].same_vector(st["x_old"] - AH(un) * tau), pd.x.same_vector(xn)))]
        d = pd.x - st["x_old"]
        tn, sn = Sym(core._lift(pd.tau)), Sym(core._lift(pd.sigma))
        if mode == "plain":
            th = st["theta"]
            obs.append(("conf:steps-unchanged", [], z3.And(tn.t == tau.t, sn.t == sigma.t)))
        else:
            gam, smin = (st["gp"], tau) if mode == "primal" else (st["gd"], sigma)
            th = Sym(z3.Real("theta_acc"))
            defn = [th.t > 0, th.t * th.t * (1 + 2 * gam.t * smin.t) == 1]       # theta = 1/sqrt(1+2 gamma step_min)
            if mode == "primal":
                obs.append(("conf:theta=1/sqrt(1+2*gamma*tau_min);tau*=theta;sigma/=theta", defn,
                            z3.And(tn.t == th.t * tau.t, sn.t * th.t == sigma.t, core._lift(pd.tau_min) == th.t * tau.t)))
            else:
                obs.append(("conf:theta=1/sqrt(1+2*gamma*sigma_min);sigma*=theta;tau/=theta", defn,
                            z3.And(sn.t == th.t * sigma.t, tn.t * th.t == tau.t, core._lift(pd.sigma_min) == th.t * sigma.t)))
            obs.append(("@fact", [], z3.And(*defn)))
        obs.append(("conf:x_ext+==x++theta*(x+-x)", [], pd.x_ext.same_vector(pd.x + d * th)))
        if mode == "plain":
            # Fejer monotonicity (theta = 1, constant steps) in the metric |(a,b)|_M^2 = |a|^2/tau + |b|^2/sigma - 2<A a, b>
            xs, us, xk = sp.base("xs", 0), sp.base("us", 1), sp.base("xk", 0)

            def M2(a, b):
                return sp.ip(a, a).t / tau.t + sp.ip(b, b).t / sigma.t - 2 * sp.ip(A(a), b).t
            # ghost: the entry state was produced by the previous update from x_k: x = prox_{tau g}(x_k - tau AH u), x_ext = 2x - x_k
            subx = _subst_base(sp, "xe", st["x_old"] * 2 - xk)
            un2, arg = subx(un), subx(fc[0][1])
            p = (xk - AH(st["u_old"]) * tau - st["x_old"]) * (1 / tau)         # in subdiff g(x)      (previous primal step)
            q = (arg - un2) * (1 / sigma)                                      # in subdiff f*(u+)    (this dual step, ACTUAL call)
            ps, qs = -AH(us), A(xs)                                            # saddle point: -AH u* in dg(x*), A x* in df*(u*)
            hy = [tau.t > 0, sigma.t > 0, st["theta"].t == 1,
                  sp.ip(p - ps, st["x_old"] - xs).t >= 0, sp.ip(q - qs, un2 - us).t >= 0]
            obs.append(("fejer:M-distance-to-saddle-non-increasing", hy,
                        M2(st["x_old"] - xs, un2 - us) <= M2(xk - xs, st["u_old"] - us) - M2(st["x_old"] - xk, un2 - st["u_old"])))
        return obs
    obs, covers = path_obligations("C13/PDHG._update/%s" % inst, results, post, instance=inst, fn_record=rec)
    return check_obligations(obs, timeout_ms) + covers


def job_pdhg_saddle(timeout_ms):
    """every saddle point (with x_ext = x) is a fixed point of the real update"""
    rec = record(ALG, "PrimalDualHybridGradient._update")[0]
    alg = load_alg()

    def run():
        pd, st = _pdhg_state(alg, "plain")
        sp, A, AH, tau, sigma = st["sp"], st["A"], st["AH"], st["tau"], st["sigma"]
        xs, us = sp.base("xs", 0), sp.base("us", 1)
        # saddle point: u* = prox_{sigma f*}(u* + sigma A x*),  x* = prox_{tau g}(x* - tau AH u*)
        st["proxfc"].preset([sigma], us + A(xs) * sigma, us)
        st["proxg"].preset([tau], xs - AH(us) * tau, xs)
        pd.x[...] = xs
        pd.u[...] = us
        pd.x_ext[...] = xs
        pd._update()
        return pd, st, xs, us
    results = explore(run)

    def post(r):
        if r.kind != "return":
            return [("no-exception", [], z3.BoolVal(False))]
        pd, st, xs, us = r.value
        return [("saddle-point-is-fixed", [], z3.And(pd.x.same_vector(xs), pd.u.same_vector(us), pd.x_ext.same_vector(xs)))]
    obs, covers = path_obligations("C13/PDHG._update/saddle", results, post, instance="saddle", fn_record=rec)
    return check_obligations(obs, timeout_ms) + covers


def job_pdhg_init(mode, timeout_ms):
    rec = record(ALG, "PrimalDualHybridGradient.__init__")[0]
    alg = load_alg()

    def run():
        sp = gram.Space()
        A = sp.op("A", dom=0, rng=1, adjoint="AH")
        x, u = sp.base("x", 0), sp.base("u", 1)
        tau, sigma = Sym(z3.Real("tau")), Sym(z3.Real("sigma"))
        core.assume(core.And(tau > 0, sigma > 0))
        gp = Sym(z3.Real("gp")) if mode == "primal" else 0
        gd = Sym(z3.Real("gd")) if mode == "dual" else 0
        if mode == "primal":
            core.assume(gp > 0)
        if mode == "dual":
            core.assume(gd > 0)
        pd = alg.PrimalDualHybridGradient(FnStub(sp, "pf", 1), FnStub(sp, "pg", 0), A, A.H, x, u, tau, sigma,
                                          gamma_primal=gp, gamma_dual=gd, max_iter=Sym(z3.Int("mi")))
        return pd, x, u, tau, sigma
    results = explore(run)

    def post(r):
        if r.kind != "return":
            return [("no-exception", [], z3.BoolVal(False))]
        pd, x, u, tau, sigma = r.value
        obs = [("F:x,u-are-the-callers-arrays", [], z3.BoolVal(pd.x is x and pd.u is u)),
               ("x_ext==x-distinct-object", [], z3.And(pd.x_ext.same_vector(x), z3.BoolVal(pd.x_ext is not pd.x))),
               ("iter==0", [], z3.BoolVal(pd.iter == 0))]
        if mode == "primal":
            obs.append(("tau_min==tau", [], core._lift(pd.tau_min) == tau.t))
        if mode == "dual":
            obs.append(("sigma_min==sigma", [], core._lift(pd.sigma_min) == sigma.t))
        return obs
    obs, covers = path_obligations("C13/PDHG.__init__/%s" % mode, results, post, instance=mode, fn_record=rec)
    return check_obligations(obs, timeout_ms) + covers


def jobs(tier):
    M = "contracts.C13"
    js = []
    for acc in (False, True):
        js.append(Job(M, "job_gm_init", accelerate=acc))
        for wp in (False, True):
            js.append(Job(M, "job_gm_update", accelerate=acc, with_prox=wp))
    for mode in ("plain", "primal", "dual"):
        js.append(Job(M, "job_pdhg_update", mode=mode))
        js.append(Job(M, "job_pdhg_init", mode=mode))
    js.append(Job(M, "job_pdhg_saddle"))
    return js
