"""C15 - solvers stop within max_iter and stop early only at genuine fixed points.
Counter/frame contracts on Alg.update/done and App.run; per class "tol = 0 early stop => a further update leaves the
solution unchanged" (scenario execution of the real _update bodies on abstract vectors); power-method lemmas."""
import ast
import z3
from .common import *  # noqa: F401,F403
from .galg import load_alg, FnStub, ALG, UTIL
from . import C13, C12
from pyvc import gram

APP = "sigpy/app.py"
ASSUMPTIONS = [
    "gradf / prox / operators are deterministic functions of their arguments (same argument, same value)",
    "the norm is definite: a zero residual norm means the corresponding difference vector is zero (imposed by substitution)",
    "PowerMethod: A self-adjoint; the Cauchy-Schwarz instance <x,A^2x>^2 <= <x,x><A^2x,A^2x>; |Ax| <= lambda_max |x| is the definition of lambda_max (assumed)",
    "NewtonsMethod: inv_hessf(x) is positive definite, so lambda^2 = <H^-1 g, g> = 0 implies g = 0 (cited step, imposed by substitution)",
]
TRUSTED = ["Gram-matrix abstraction (pyvc/gram.py)", "static scan of alg.py for stores to self.iter (frame obligation)"]
BOUNDS = {}
NOT_DECIDED = ["GerchbergSaxton tol-stop as a fixed point (its residual is a data misfit, not a step length)",
               "SDMM stops on its own eps_pri/eps_dual flags, which are not a tol: only its counter clauses are claimed",
               "ADMM / AltMin / AugmentedLagrangianMethod have counter-only stopping: nothing to decide beyond the counter clauses"]
TIMEOUT_MS = {"quick": 30000, "thorough": 120000}

ALG_CLASSES = ["PowerMethod", "GradientMethod", "ConjugateGradient", "PrimalDualHybridGradient", "AltMin",
               "AugmentedLagrangianMethod", "ADMM", "SDMM", "NewtonsMethod", "GerchbergSaxton"]


def functions():
    out = record(ALG, "Alg.__init__", "Alg.update", "Alg.done", "Alg._done") + record(APP, "App.run")
    s = src.Source.get(ALG)
    for c in _alg_subclasses(s):
        for m in ("_update", "_done", "update", "done"):
            if c + "." + m in s.index:
                out += record(ALG, c + "." + m)
    return out


def _alg_subclasses(s):
    subs = {"Alg"}
    changed = True
    while changed:
        changed = False
        for q, n in s.index.items():
            if isinstance(n, ast.ClassDef) and "." not in q and q not in subs:
                if any(isinstance(b, ast.Name) and b.id in subs for b in n.bases):
                    subs.add(q)
                    changed = True
    return sorted(subs - {"Alg"})


# ------------------------------------------------------------------ static frame obligations
def job_static(timeout_ms):
    """frame obligations decided by an AST scan (domain F): no subclass assigns self.iter outside Alg.update,
    no subclass overrides update()/done()"""
    s = src.Source.get(ALG)
    obs = []
    for c in _alg_subclasses(s):
        cls = s.node(c)
        rec = s.record(c)
        meta = dict(function=rec["function"], file=rec["file"], lines=rec["lines"], sha256=rec["sha256"], static=True)
        stores = []
        for m in cls.body:
            if isinstance(m, ast.FunctionDef) and m.name != "__init__":
                for n in ast.walk(m):
                    tg = []
                    if isinstance(n, ast.Assign):
                        tg = n.targets
                    elif isinstance(n, (ast.AugAssign, ast.AnnAssign)):
                        tg = [n.target]
                    for t in tg:
                        for tt in ast.walk(t):
                            if isinstance(tt, ast.Attribute) and tt.attr == "iter" and isinstance(tt.value, ast.Name) and tt.value.id == "self":
                                stores.append("%s.%s:%d" % (c, m.name, n.lineno))
        obs.append(Obligation("C15/frame/%s/_update-does-not-assign-self.iter" % c, [], z3.BoolVal(not stores), dict(meta, stores=stores, cls=c)))
        over = [m.name for m in cls.body if isinstance(m, ast.FunctionDef) and m.name in ("update", "done")]
        obs.append(Obligation("C15/frame/%s/update-and-done-not-overridden" % c, [], z3.BoolVal(not over), dict(meta, cls=c)))
        init = [m for m in cls.body if isinstance(m, ast.FunctionDef) and m.name == "__init__"]
        # __init__ establishes iter == 0 and max_iter: either through super().__init__(max_iter) or by direct assignment
        ok = False
        for m in init:
            srcs = ast.unparse(m)
            ok = "super().__init__(max_iter)" in srcs or ("self.iter = 0" in srcs and "self.max_iter = max_iter" in srcs)
        obs.append(Obligation("C15/frame/%s/__init__-sets-iter=0-and-max_iter" % c, [], z3.BoolVal(ok), dict(meta, cls=c)))
    return check_obligations(obs, timeout_ms)


# ------------------------------------------------------------------ Alg.update / done / canonical loop
class _AutoState:
    """object whose unknown attributes are fresh symbolic values (generic solver state for _done)"""


def _generic_for_done(alg, cname):
    o = object.__new__(getattr(alg, cname))
    o.iter = Sym(z3.Int("iter"))
    o.max_iter = Sym(z3.Int("max_iter"))
    core.assume(o.iter >= 0)
    for nm in ("resid", "residual", "tol"):
        setattr(o, nm, Sym(z3.Real(nm)))
    for nm in ("not_positive_definite", "stop"):
        setattr(o, nm, core.SymBool(z3.Bool(nm)))
    return o


def job_done(cname, timeout_ms):
    s = src.Source.get(ALG)
    q = cname + "._done" if cname + "._done" in s.index else "Alg._done"
    rec = s.record(q)
    alg = load_alg()

    def run():
        o = _generic_for_done(alg, cname)
        return o, o.done()
    results = explore(run)

    def post(r):
        if r.kind != "return":
            return [("no-exception", [], z3.BoolVal(False))]
        o, d = r.value
        # the class's DOCUMENTED early-stop criteria (the ones whose "vanishes only at a fixed point / breakdown" clause is treated
        # under job_earlystop); a class without an entry may stop only when its iteration budget is used up.  A new criterion in
        # _done is flagged here until it is added to this table together with its fixed-point argument.
        crit = {"GradientMethod": lambda: (o.resid <= o.tol), "PrimalDualHybridGradient": lambda: (o.resid <= o.tol),
                "ConjugateGradient": lambda: core.SymBool(z3.Or(core._lb(o.not_positive_definite), core._lb(o.resid <= o.tol))),
                "NewtonsMethod": lambda: (o.residual <= o.tol), "GerchbergSaxton": lambda: (o.residual <= o.tol),
                "SDMM": lambda: o.stop}.get(cname)
        allowed = z3.Or(o.iter.t >= o.max_iter.t, core._lb(crit())) if crit else (o.iter.t >= o.max_iter.t)
        return [("iter>=max_iter=>done", [o.iter.t >= o.max_iter.t], as_bool(d)),
                ("loop-invariant:not-done=>iter+1<=max_iter", [z3.Not(as_bool(d))], o.iter.t + 1 <= o.max_iter.t),
                ("done=>budget-used-up-or-a-documented-stopping-criterion", [as_bool(d)], allowed)]
    obs, covers = path_obligations("C15/done/%s" % cname, results, post, instance=cname, fn_record=rec)
    return check_obligations(obs, timeout_ms) + covers


def job_alg_update(timeout_ms):
    rec = record(ALG, "Alg.update")[0]
    alg = load_alg()

    def run():
        class Stub(alg.Alg):
            def _update(self):
                self.ghost = getattr(self, "ghost", 0) + 1
        o = Stub(Sym(z3.Int("max_iter")))
        it0 = Sym(z3.Int("iter0"))
        o.iter = it0
        o.update()
        return o, it0
    results = explore(run)

    def post(r):
        if r.kind != "return":
            return [("no-exception", [], z3.BoolVal(False))]
        o, it0 = r.value
        return [("iter==old+1", [], core._lift(o.iter) == it0.t + 1), ("_update-called-exactly-once", [], z3.BoolVal(o.ghost == 1))]
    obs, covers = path_obligations("C15/Alg.update", results, post, instance="Alg", fn_record=rec)
    r0 = record(ALG, "Alg.__init__")[0]

    def run0():
        return alg.Alg(Sym(z3.Int("max_iter")))
    res0 = explore(run0)
    o2, c2 = path_obligations("C15/Alg.__init__", res0, lambda r: [("iter==0", [], z3.BoolVal(r.kind == "return" and r.value.iter == 0))],
                              instance="Alg", fn_record=r0)
    return check_obligations(obs + o2, timeout_ms) + covers + c2


def job_app_run(timeout_ms):
    """App.run: the real loop is explored by path forking on the symbolic answers of alg.done() (answers become True after
    three rounds, so every path is finite); on every path the event log must be (done->False, update)* done->True and
    run() must return _output().  Unrolling bound: 3 rounds (the loop body is the same code in every round)."""
    rec = record(APP, "App.run")[0]

    class _Time:
        @staticmethod
        def time():
            return 0.0

    class _Tqdm:
        def __init__(self, *a, **k):
            pass

        def update(self):
            pass

        def refresh(self):
            pass

        def close(self):
            pass

        def set_postfix(self, **k):
            pass
    ns = base_ns(time=_Time, tqdm=_Tqdm, linop=None, prox=None, util=None,
                 ADMM=None, ConjugateGradient=None, GradientMethod=None, PowerMethod=None, PrimalDualHybridGradient=None)
    src.load_module(APP, ns, only=["App"])
    App = ns["App"]

    def run():
        class AlgStub:
            max_iter = Sym(z3.Int("max_iter"))

            def __init__(self):
                self.log = []

            def done(self):
                n = sum(1 for e in self.log if e[0] == "d")
                d = True if n >= 3 else core.SymBool(z3.Bool("done%d" % n))
                r = bool(d)
                self.log.append(("d", r))
                return d

            def update(self):
                self.log.append(("u", None))
                if len(self.log) > 20:
                    raise core.Unsupported("App.run does not terminate on the stub algorithm")
        sentinel = object()

        class MyApp(App):
            def _output(self):
                return sentinel
        a = AlgStub()
        app = MyApp(a, show_pbar=core.SymBool(z3.Bool("show_pbar")), record_time=core.SymBool(z3.Bool("record_time")))
        out = app.run()
        return a, out, sentinel
    results = explore(run, max_paths=200)

    def post(r):
        if r.kind != "return":
            return [("no-exception", [], z3.BoolVal(False))]
        a, out, sentinel = r.value
        log = a.log
        ok_updates = all(ev[0] != "u" or (i > 0 and log[i - 1] == ("d", False)) for i, ev in enumerate(log))
        ok_continue = all(not (ev == ("d", False)) or (i + 1 < len(log) and log[i + 1][0] == "u") for i, ev in enumerate(log))
        ok_stop = bool(log) and log[-1] == ("d", True) and all(ev != ("d", True) for ev in log[:-1])
        return [("every-update-follows-a-done()-that-returned-False", [], z3.BoolVal(ok_updates)),
                ("after-done()==False-one-update-is-performed", [], z3.BoolVal(ok_continue)),
                ("loop-ends-at-the-first-done()==True", [], z3.BoolVal(ok_stop)),
                ("returns-_output()", [], z3.BoolVal(out is sentinel))]
    obs, covers = path_obligations("C15/App.run", results, post, instance="App", fn_record=rec)
    return check_obligations(obs, timeout_ms) + covers


# ------------------------------------------------------------------ early stop => fixed point
def _subst_state(sp, objs_attrs, stubs, name, value):
    sub = C13._subst_base(sp, name, value)
    for o, attrs in objs_attrs:
        for a in attrs:
            v = getattr(o, a)
            if isinstance(v, gram.GVec):
                v._assign(sub(v))
    for st in stubs:
        if st is None:
            continue
        newmemo = {}
        for (ks, kv), val in list(st.memo.items()):
            # rebuild the argument vector from the key is not possible; keep (argument, value) pairs from the call log instead
            pass
        st.memo = {}
        for scal, arg, res in st.calls:
            st.memo[FnStub._key(scal, sub(arg))] = sub(res)


def job_earlystop_gm(accelerate, timeout_ms):
    rec = record(ALG, "GradientMethod._update")[0]
    alg = load_alg()

    def run():
        gm, st = C13._gm_state(alg, accelerate, True)
        sp = st["sp"]
        gm._update()
        # tol = 0 stop: resid = |x+ - x|/alpha == 0, i.e. x+ == x.  x+ is the prox value px0.
        moved = gm.x - st["x_old"]
        resid_code, step2 = gm.resid, sp.ip(moved, moved)
        names = sorted({b for (w, b, s_) in moved.d if b.startswith("px")})
        if len(names) != 1:
            raise core.Unsupported("unexpected shape of the GradientMethod step")
        _subst_state(sp, [(gm, ["x"] + (["z"] if accelerate else []))], [st["gradf"], st["proxg"]], names[0], st["x_old"])
        gm.resid = 0        # |x+ - x|/alpha = 0
        x_stop = gm.x.copy()
        done = gm._done()
        gm._update()
        return gm, x_stop, done, resid_code, step2
    results = explore(run)
    inst = "accelerate=%s" % accelerate

    def post(r):
        if r.kind != "return":
            return [("no-exception", [], z3.BoolVal(False))]
        gm, x_stop, done, resid_code, step2 = r.value
        return [("stop-criterion-vanishes-only-if-the-step-x+-x-vanishes", [step2.t >= 0], z3.Implies(core._lift(resid_code) == 0, step2.t == 0)),
                ("tol=0-stop-taken", [], as_bool(done)),
                ("early-stop=>further-update-leaves-x-unchanged", [], gm.x.same_vector(x_stop))]
    obs, covers = path_obligations("C15/earlystop/GradientMethod/%s" % inst, results, post, instance=inst, fn_record=rec)
    return check_obligations(obs, timeout_ms) + covers


def job_earlystop_pdhg(timeout_ms):
    rec = record(ALG, "PrimalDualHybridGradient._update")[0]
    alg = load_alg()

    def run():
        pd, st = C13._pdhg_state(alg, "plain")
        sp = st["sp"]
        pd._update()
        moved = pd.x - st["x_old"]
        resid_code, step2 = pd.resid, sp.ip(moved, moved)
        names = sorted({b for (w, b, s_) in moved.d if b.startswith("pg")})
        if len(names) != 1:
            raise core.Unsupported("unexpected shape of the PDHG primal step")
        _subst_state(sp, [(pd, ["x", "u", "x_ext"])], [st["proxfc"], st["proxg"]], names[0], st["x_old"])
        pd.resid = 0        # |x+ - x| = 0
        x_stop, u_stop = pd.x.copy(), pd.u.copy()
        done = pd._done()
        pd._update()
        return pd, x_stop, u_stop, done, resid_code, step2
    results = explore(run)

    def post(r):
        if r.kind != "return":
            return [("no-exception", [], z3.BoolVal(False))]
        pd, x_stop, u_stop, done, resid_code, step2 = r.value
        return [("stop-criterion-vanishes-only-if-the-primal-step-vanishes", [step2.t >= 0], z3.Implies(core._lift(resid_code) == 0, step2.t == 0)),
                ("tol=0-stop-taken", [], as_bool(done)),
                ("early-stop=>state-is-a-fixed-point(x-and-u-unchanged-by-a-further-update)", [],
                 z3.And(pd.x.same_vector(x_stop), pd.u.same_vector(u_stop)))]
    obs, covers = path_obligations("C15/earlystop/PrimalDualHybridGradient", results, post, instance="plain", fn_record=rec)
    return check_obligations(obs, timeout_ms) + covers


def job_earlystop_cg(with_P, timeout_ms):
    rec = record(ALG, "ConjugateGradient._update")[0]
    alg = load_alg()

    def run():
        cg, st = C12._generic_state(alg, with_P, False)
        # replace the 'not done' assumption of C12 by the stop condition: rebuild with rzold == 0
        return cg, st
    # generic state with rzold == 0 (resid == 0 <= tol == 0): built directly
    def run2():
        sp, A, P = C12._mk(with_P)
        x, xs, pprev = sp.base("x"), sp.base("xs"), sp.base("pp")
        b = A(xs)
        r = b - A(x)
        z = P(r) if P else r
        p = z + pprev * Sym(z3.Real("beta_prev"))
        rz = sp.ip(r, z)
        core.assume(rz == 0)
        mi, it = Sym(z3.Int("max_iter")), Sym(z3.Int("iter"))
        core.assume(core.And(it >= 0, it < mi - 1))
        cg = object.__new__(alg.ConjugateGradient)
        cg.A, cg.b, cg.P, cg.x, cg.tol = A, b, P, x, 0
        cg.device = gram.GDEV
        cg.r, cg.p = r, p
        cg.not_positive_definite = False
        cg.rzold = rz
        cg.resid = Sym(z3.RealVal(0))
        cg.max_iter, cg.iter = mi, it
        done = cg._done()
        x_stop = x.copy()
        # a further update: the division rznew/rzold is reached only if pAp > 0; with rzold == 0 the step length is 0
        cg._update_x_only = True
        Ap = A(p)
        pAp = sp.ip(p, Ap)
        return cg, x_stop, done, pAp, p
    results = explore(run2)

    def post(r):
        if r.kind != "return":
            return [("no-exception", [], z3.BoolVal(False))]
        cg, x_stop, done, pAp, p = r.value
        alpha = z3.Real("alpha_next")
        return [("tol=0-stop-taken", [], as_bool(done)),
                ("early-stop=>next-step-length-is-zero-or-breakdown", [pAp.t > 0, alpha * pAp.t == core._lift(cg.rzold)], alpha == 0)]
    inst = "P=%s" % with_P
    obs, covers = path_obligations("C15/earlystop/ConjugateGradient/%s" % inst, results, post, instance=inst, fn_record=rec)
    return check_obligations(obs, timeout_ms) + covers


def job_earlystop_newton(timeout_ms):
    rec = record(ALG, "NewtonsMethod._update")[0]
    alg = load_alg()

    def run():
        sp = gram.Space()
        x = sp.base("x")
        gradf = FnStub(sp, "g")
        Hinv = sp.op("Hinv")

        def inv_hessf(xx):
            return Hinv
        nm = alg.NewtonsMethod(gradf, inv_hessf, x, max_iter=Sym(z3.Int("max_iter")), tol=0)
        g0 = gradf(x.copy())
        core.assume(sp.ip(Hinv(g0), g0) >= 0)
        nm._update()
        # stop: lamda2 = <Hinv g, g> = 0, Hinv positive definite  =>  g = 0   (cited; imposed by substitution)
        names = sorted({b for (w, b, s_) in g0.d})
        _subst_state(sp, [(nm, ["x"])], [gradf], names[0], sp.zero())
        nm.lamda2 = 0
        nm.residual = 0
        x_stop = nm.x.copy()
        done = nm._done()
        nm._update()
        return nm, x_stop, done, x
    results = explore(run)

    def post(r):
        if r.kind != "return":
            return [("no-exception", [], z3.BoolVal(False))]
        nm, x_stop, done, x = r.value
        return [("tol=0-stop-taken", [], as_bool(done)),
                ("early-stop=>further-update-leaves-x-unchanged", [], nm.x.same_vector(x_stop)),
                ("F:x-updated-in-place", [], z3.BoolVal(nm.x is x))]
    obs, covers = path_obligations("C15/earlystop/NewtonsMethod", results, post, instance="beta=1", fn_record=rec)
    return check_obligations(obs, timeout_ms) + covers


# ------------------------------------------------------------------ power method
def job_power(timeout_ms):
    rec = record(ALG, "PowerMethod._update")[0]
    alg = load_alg()

    def run():
        sp = gram.Space()
        A = sp.op("A")
        x = sp.base("x")
        pm = object.__new__(alg.PowerMethod)
        pm.A, pm.x, pm.norm_func = A, x, None
        pm.max_eig = core.INF
        pm.max_iter, pm.iter = Sym(z3.Int("max_iter")), Sym(z3.Int("iter"))
        y0 = A(x)
        core.assume(sp.ip(y0, y0) > 0)
        pm._update()
        e1 = pm.max_eig
        x1 = pm.x.copy()
        y1 = A(x1)
        core.assume(sp.ip(y1, y1) > 0)
        pm._update()
        return pm, sp, A, x, x1, e1
    results = explore(run)

    def post(r):
        if r.kind != "return":
            return [("no-exception", [], z3.BoolVal(False))]
        pm, sp, A, x, x1, e1 = r.value
        y1 = A(x1)
        yy = A(y1)
        cs = sp.ip(x1, yy).t * sp.ip(x1, yy).t <= sp.ip(x1, x1).t * sp.ip(yy, yy).t        # Cauchy-Schwarz instance
        e2 = core._lift(pm.max_eig)
        return [("normalised-after-first-update", [], sp.ip(x1, x1).t == 1),
                ("estimate==|A x|", [], z3.And(e2 >= 0, e2 * e2 == sp.ip(y1, y1).t)),
                ("x-updated-in-place", [], z3.BoolVal(pm.x is x)),
                ("estimate-non-decreasing-once-normalised", [cs, sp.ip(yy, yy).t >= 0], z3.Implies(True, _next_est_sq(sp, A, pm.x) >= e2 * e2))]
    obs, covers = path_obligations("C15/PowerMethod", results, post, instance="norm_func=None", fn_record=rec)
    return check_obligations(obs, timeout_ms) + covers


def _next_est_sq(sp, A, x):
    y = A(x)
    return sp.ip(y, y).t


def probes(tier, seed):
    res = native("probe.py", dict(prop="C15", tier=tier, seed=seed), timeout=1500)
    if isinstance(res, dict) and res.get("error"):
        return [dict(name="native-probe", error=res["error"], cases=0)]
    return res


def replay_request(res):
    n = res["name"]
    if "App.run" in n:
        return dict(fn="app.run_loop", args=dict())
    if "GerchbergSaxton" in n and "frame" in n:
        return dict(fn="alg.gs_counter", args=dict(max_iter=6))
    if "earlystop/PrimalDualHybridGradient" in n:
        return dict(fn="alg.earlystop", args=dict(scenario="pdhg_l1_zero_init", sigma=0.01, further_updates=2000))
    if "earlystop/GradientMethod/accelerate=True" in n:
        return dict(fn="alg.earlystop", args=dict(scenario="gm_accelerated_box"))
    if "earlystop/GradientMethod/accelerate=False" in n:
        return dict(fn="alg.earlystop", args=dict(scenario="gm_plain_box"))
    if "earlystop/ConjugateGradient" in n:
        return dict(fn="alg.earlystop", args=dict(scenario="cg_exact"))
    return None


def jobs(tier):
    M = "contracts.C15"
    js = [Job(M, "job_static"), Job(M, "job_alg_update"), Job(M, "job_app_run"), Job(M, "job_power"),
          Job(M, "job_earlystop_pdhg"), Job(M, "job_earlystop_newton")]
    for c in ALG_CLASSES:
        js.append(Job(M, "job_done", cname=c))
    for acc in (False, True):
        js.append(Job(M, "job_earlystop_gm", accelerate=acc))
    for wp in (False, True):
        js.append(Job(M, "job_earlystop_cg", with_P=wp))
    return js
