"""C19 - Bloch simulators are unitary (and compose); SLR inverse round trip is bounded-only.
For abrm, abrm_nd, abrm_hp and optcont.blochsim the real time loop is treated with an inductive invariant: the loop body, executed
once on a generic state (a, b as LINEAR inputs) at a generic sample index, must be a linear map of (a, b) whose 2x2 coefficient matrix
(depending only on the current sample and the position) is unitary - exactly for abrm_hp/blochsim, up to the eps = 1e-16 regulariser
(1 - eps(2 phi0 + eps)/4 <= det <= 1) for abrm/abrm_nd; the initial state is the identity rotation (a = 1, b = 0); the epilogue
(total phase accrual / rewinder) is a unitary diagonal map.  Unitary linear steps preserve |a|^2 + |b|^2 and compose."""
import z3
from .common import *  # noqa: F401,F403
from pyvc.snp import SArr, LF, C, coef_of

SIM = "sigpy/mri/rf/sim.py"
OPT = "sigpy/mri/rf/optcont.py"
ASSUMPTIONS = [
    "cos, sin enter through c^2+s^2 = 1, sin^2 t <= t^2; exp(i t) = cos t + i sin t; angle(z) by |z|cos = re, |z|sin = im (z != 0)",
    "algebra (cited, one line each): a 2x2 matrix with M^H M = I preserves |a|^2+|b|^2; products of per-sample matrices compose, so simulating a "
    "concatenated waveform equals composing the rotations (abrm derives its gradient from size(rf) and is excluded from the composition clause)",
    "rf complex, gradients / positions / off-resonance real; dt, gam real",
    "abrm_ptx (masked divisions, errstate) and the SLR inverse transform (b2a: log-magnitude / Hilbert transform via FFT, ab2rf peeling) are NOT decided "
    "deductively: bounded native probe only",
]
TRUSTED = ["loop invariant rule (init / preservation / use as three obligations) via the ForInvariant rewrite of pyvc/src.py"]
BOUNDS = {"spatial dims": "1..3 (abrm_nd, blochsim)"}
NOT_DECIDED = ["abrm_ptx unitarity (bounded probe)", "inverse SLR round trip b -> rf -> simulated |b| (bounded probe)",
               "abrm / abrm_nd: the LOWER bound 1 - eps(2 phi0 + eps)/4 on the per-step norm factor (eps = 1e-16 regulariser): upper bound, orthogonality "
               "and equal column norms are proved; the deviation from 1 is checked by the bounded probe (< 1e-12)"]
TIMEOUT_MS = {"quick": 30000, "thorough": 120000}
EPS = z3.RealVal("1e-16") if False else z3.RealVal(1) / z3.RealVal(10 ** 16)


def functions():
    return record(SIM, "abrm", "abrm_nd", "abrm_hp", "abrm_ptx") + record(OPT, "blochsim")


class _Arange:
    def __init__(self, n):
        self.n = n


def _load(rel, fn):
    st = dict(init=None, after=None, key=None)
    npx_base = type(snp.NP)

    class NPX(npx_base):
        @staticmethod
        def arange(n):
            return _Arange(n)
    npx = NPX()

    def loop_enter(key, names, values):
        st["init"] = dict(zip(names, values))
        st["names"] = names
        out = []
        for nm, v in zip(names, values):
            if nm in ("a", "b"):
                out.append(SArr.input(nm, v.shape))          # generic state: linear inputs
            else:
                out.append(v)
        return tuple(out)

    def once(key, it):
        if isinstance(it, _Arange):
            lo, hi = 0, it.n
        elif isinstance(it, snp.SymRange):
            lo, hi = it.lo, it.hi
        elif isinstance(it, range):
            lo, hi = it.start, it.stop
        else:
            raise core.Unsupported("loop over %r" % type(it))
        mm = Sym(z3.Int("mm"))
        core.assume(core.And(mm >= lo, mm < hi))
        yield mm

    def loop_exit(key, names, values):
        st["after"] = dict(zip(names, values))
        out = []
        for nm, v in zip(names, values):
            if nm in ("a", "b"):
                out.append(SArr.input(nm + "_end", v.shape))
            else:
                out.append(v)
        return tuple(out)
    ns = base_ns(np=npx)
    ns["backend"] = type("B", (), {"get_device": staticmethod(lambda x: _Dev(npx)), "get_array_module": staticmethod(lambda x: npx)})()
    ns.update(__pyvc_loop_enter=loop_enter, __pyvc_once=once, __pyvc_loop_exit=loop_exit)
    src.load_module(rel, ns, only=[fn], transforms=(src.for_invariant({fn: [0]}),))
    return ns[fn], st


class _Dev:
    def __init__(self, xp):
        self.xp = xp

    def __enter__(self):
        return self

    def __exit__(self, *a):
        return False


def _coefs(lf, k, names):
    out = {}
    for nm in names:
        c, left = coef_of(lf, nm, k)
        if left:
            raise core.Unsupported("summation in a simulator step")
        out[nm] = c
    return out


def _unitary(M, exact, lo_bound=None):
    """M = {('a','a'): C, ('a','b'): C, ('b','a'): C, ('b','b'): C} (row, col)"""
    aa, ab, ba, bb = M[("a", "a")], M[("a", "b")], M[("b", "a")], M[("b", "b")]
    n1 = aa.re * aa.re + aa.im * aa.im + ba.re * ba.re + ba.im * ba.im
    n2 = ab.re * ab.re + ab.im * ab.im + bb.re * bb.re + bb.im * bb.im
    # column orthogonality: conj(aa)*ab + conj(ba)*bb == 0
    ore = aa.re * ab.re + aa.im * ab.im + ba.re * bb.re + ba.im * bb.im
    oim = aa.re * ab.im - aa.im * ab.re + ba.re * bb.im - ba.im * bb.re
    if exact:
        return [("columns-have-unit-norm", z3.And(n1 == 1, n2 == 1)), ("columns-orthogonal", z3.And(ore == 0, oim == 0))]
    return [("columns-orthogonal", z3.And(ore == 0, oim == 0)), ("column-norms-equal", n1 == n2), ("norm<=1(eps-regulariser-contracts)", n1 <= 1)]


def job_sim(sim, variant, timeout_ms):
    rel = OPT if sim == "blochsim" else SIM
    rec = record(rel, sim)[0]
    d = int(variant.get("d", 1))

    def mk():
        Ns, Nt = Sym(z3.Int("Ns")), Sym(z3.Int("Nt"))
        rf = SArr.input("rf", [Nt], valued=True)
        return Ns, Nt, rf

    def run():
        f, st = _load(rel, sim)
        Ns, Nt, rf = mk()
        core.assume(core.And(Ns >= 1, Nt >= 1))
        if sim == "abrm":
            x = SArr.input("x", [Ns], valued="real")
            out = f(rf, x, balanced=variant.get("balanced", False))
        elif sim == "abrm_nd":
            x = SArr.input("x", [Ns, d], valued="real")
            g = SArr.input("g", [Nt, d], valued="real")
            out = f(rf, x, g)
        elif sim == "abrm_hp":
            xx = SArr.input("x", [Ns], valued="real")
            gam = SArr.input("g", [Nt], valued="real")
            out = f(rf, gam, xx, dom0dt=Sym(z3.Real("dom0dt")))
        else:
            if variant.get("gdim", 1) == 1:
                x = SArr.input("x", [Ns], valued="real")
                g = SArr.input("g", [Nt], valued="real")
            else:
                x = SArr.input("x", [Ns, d], valued="real")
                g = SArr.input("g", [Nt, d], valued="real")
            out = f(rf, x, g)
        return out, st
    results = explore(run, max_paths=64)
    inst = "%s(%s)" % (sim, ",".join("%s=%s" % kv for kv in sorted(variant.items())))

    def post(r):
        if r.kind != "return":
            return [("no-exception(%s)" % type(r.value).__name__, [], z3.BoolVal(False))]
        (a_out, b_out), st = r.value[0][:2], r.value[1]
        Ns, Nt, rf = mk()
        k = (z3.Int("k0"),)
        bx = box(k, [Ns])
        obs = []
        if st["init"] is None or st["after"] is None:
            return [("time-loop-found", [], z3.BoolVal(False))]
        # init: identity rotation
        a0, b0 = st["init"]["a"].elem(k).value(), st["init"]["b"].elem(k).value()
        obs.append(("init:a=1,b=0", bx, z3.And(a0.re == 1, a0.im == 0, b0.re == 0, b0.im == 0)))
        # preservation: the step is linear in (a, b) with a unitary coefficient matrix
        aft = st["after"]
        M = {}
        for row in ("a", "b"):
            lf = aft[row].elem(k)
            obs.append(("step:%s-is-linear-in-(a,b)(no-constant,no-conjugated-state)" % row, bx,
                        z3.And(lf.const.re == 0, lf.const.im == 0, z3.BoolVal(not any(t.conj for t in lf.terms)))))
            cs = _coefs(lf, k, ("a", "b"))
            for col in ("a", "b"):
                M[(row, col)] = cs[col]
        exact = sim in ("abrm_hp", "blochsim")
        lo = None
        if not exact:
            # phi0 = sqrt(|rf|^2 + om^2): recover phi0^2 from the code's own quantities is not possible in general; use the bound with
            # phi0 expressed through the inputs of the step
            mm = z3.Int("mm")
            rfv = rf.elem((mm,)).value()
            if sim == "abrm":
                x = SArr.input("x", [Ns], valued="real")
                om = x.elem(k).value().re * (2 * snp.NP.pi.t / z3.ToReal(Nt.t))
            else:
                x = SArr.input("x", [Ns, d], valued="real")
                g = SArr.input("g", [Nt, d], valued="real")
                om = z3.Sum([x.elem((k[0], z3.IntVal(j))).value().re * g.elem((mm, z3.IntVal(j))).value().re for j in range(d)])
            p0 = z3.Real("phi0")
            hyp0 = [p0 >= 0, p0 * p0 == rfv.re * rfv.re + rfv.im * rfv.im + om * om]
            lo = EPS * (2 * p0 + EPS) / 4
        else:
            hyp0 = []
        for nm, g_ in _unitary(M, exact, lo):
            obs.append(("step:%s" % nm, bx + hyp0, g_))
        # zero RF: b stays zero, |a| stays 1 (up to the eps contraction)
        mm = z3.Int("mm")
        rfv = rf.elem((mm,)).value()
        obs.append(("step:zero-rf-sample-does-not-mix-a-and-b", bx + hyp0 + [rfv.re == 0, rfv.im == 0],
                    z3.And(M[("b", "a")].re == 0, M[("b", "a")].im == 0, M[("a", "b")].re == 0, M[("a", "b")].im == 0)))
        # epilogue: unitary diagonal
        E = {}
        for row, arr in (("a", a_out), ("b", b_out)):
            lf = arr.elem(k)
            cs = _coefs(lf, k, ("a_end", "b_end"))
            E[(row, "a")], E[(row, "b")] = cs["a_end"], cs["b_end"]
            obs.append(("epilogue:%s-is-linear" % row, bx, z3.And(lf.const.re == 0, lf.const.im == 0)))
        ex_ep = not (sim == "abrm" and variant.get("balanced"))
        if ex_ep:
            for nm, g_ in _unitary(E, True):
                obs.append(("epilogue:%s" % nm, bx, g_))
        else:
            x = SArr.input("x", [Ns], valued="real")
            om = x.elem(k).value().re * (-snp.NP.pi.t)
            p0 = z3.Real("phi0r")
            for nm, g_ in _unitary(E, False, EPS * (2 * p0 + EPS) / 4):
                obs.append(("epilogue(rewinder):%s" % nm, bx + [p0 >= 0, p0 * p0 == om * om], g_))
            # the rewinder is free precession, a rotation about z: it acts on beta with the complex conjugate of the factor on alpha
            # (so that the balanced simulation is the composition of the pulse rotation with the rewinder rotation)
            obs.append(("epilogue(rewinder):rotation-about-z:factor-on-beta==conj(factor-on-alpha)", bx,
                        z3.And(E[("b", "b")].re == E[("a", "a")].re, E[("b", "b")].im == -E[("a", "a")].im)))
        obs.append(("epilogue:diagonal(no-mixing)", bx, z3.And(E[("a", "b")].re == 0, E[("a", "b")].im == 0, E[("b", "a")].re == 0, E[("b", "a")].im == 0)))
        return obs
    obs, covers = path_obligations("C19/%s" % inst, results, post, instance=inst, fn_record=rec)
    return check_obligations(obs, timeout_ms) + covers


def job_lemma(timeout_ms):
    """code-independent: a matrix with orthonormal columns preserves |a|^2+|b|^2; with orthogonal columns of equal norm n it scales it by n"""
    ar, ai, br, bi = z3.Reals("ar ai br bi")
    m = {k_: (z3.Real("m%s_re" % k_), z3.Real("m%s_im" % k_)) for k_ in ("aa", "ab", "ba", "bb")}

    def mul(x, y):
        return (x[0] * y[0] - x[1] * y[1], x[0] * y[1] + x[1] * y[0])

    def add(x, y):
        return (x[0] + y[0], x[1] + y[1])
    a1 = add(mul(m["aa"], (ar, ai)), mul(m["ab"], (br, bi)))
    b1 = add(mul(m["ba"], (ar, ai)), mul(m["bb"], (br, bi)))
    n1 = m["aa"][0] ** 2 + m["aa"][1] ** 2 + m["ba"][0] ** 2 + m["ba"][1] ** 2
    n2 = m["ab"][0] ** 2 + m["ab"][1] ** 2 + m["bb"][0] ** 2 + m["bb"][1] ** 2
    ore = m["aa"][0] * m["ab"][0] + m["aa"][1] * m["ab"][1] + m["ba"][0] * m["bb"][0] + m["ba"][1] * m["bb"][1]
    oim = m["aa"][0] * m["ab"][1] - m["aa"][1] * m["ab"][0] + m["ba"][0] * m["bb"][1] - m["ba"][1] * m["bb"][0]
    N0 = ar * ar + ai * ai + br * br + bi * bi
    N1 = a1[0] ** 2 + a1[1] ** 2 + b1[0] ** 2 + b1[1] ** 2
    n = z3.Real("n")
    cross_re, cross_im = ar * br + ai * bi, ar * bi - ai * br
    ident = N1 == n1 * (ar * ar + ai * ai) + n2 * (br * br + bi * bi) + 2 * ore * cross_re - 2 * oim * cross_im
    # the consequence with the polynomials hidden behind opaque reals
    X, Y, Z1, Z2, N1v, N0v, n1v, n2v, orv, oiv = z3.Reals("X Y Z1 Z2 N1v N0v n1v n2v orv oiv")
    obs = [Obligation("C19/lemma/|Mv|^2==n1|a|^2+n2|b|^2+2Re(<col1,col2>conj(a)b)(polynomial-identity)", [], ident, {}),
           Obligation("C19/lemma/orthogonal-columns-of-norm-n-scale-|a|^2+|b|^2-by-n(opaque)",
                      [N1v == n1v * X + n2v * Y + 2 * orv * Z1 - 2 * oiv * Z2, N0v == X + Y, orv == 0, oiv == 0, n1v == n, n2v == n], N1v == n * N0v, {})]
    return check_obligations(obs, max(timeout_ms, 60000))


def probes(tier, seed):
    res = native("probe.py", dict(prop="C19", tier=tier, seed=seed), timeout=1500)
    if isinstance(res, dict) and res.get("error"):
        return [dict(name="native-probe", error=res["error"], cases=0)]
    return res


def replay_request(res):
    n = res["name"]
    sim = n.split("C19/")[1].split("(")[0]
    if sim == "lemma":
        return None
    d = int(n.split("d=")[1].split(",")[0].split(")")[0]) if "d=" in n else 1
    cases = [dict(fn="rf.bloch", args=dict(sim=sim, Nt=nt, flip=fl, d=d, seed=0, compose=nt >= 2, balanced="balanced=True" in n, zero=z))
             for nt in (1, 2, 16) for fl in (0.1, 1.0, 6.0) for z in (False, True)]
    return dict(fn="multi", args=dict(cases=cases))


def jobs(tier):
    M = "contracts.C19"
    js = [Job(M, "job_lemma"), Job(M, "job_sim", sim="abrm", variant={"balanced": False}), Job(M, "job_sim", sim="abrm", variant={"balanced": True}),
          Job(M, "job_sim", sim="abrm_hp", variant={})]
    for d in (1, 2, 3):
        js.append(Job(M, "job_sim", sim="abrm_nd", variant={"d": d}))
        js.append(Job(M, "job_sim", sim="blochsim", variant={"gdim": 2, "d": d}))
    js.append(Job(M, "job_sim", sim="blochsim", variant={"gdim": 1}))
    return js
