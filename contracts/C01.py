"""C01 - every linear operator's adjoint is its true adjoint (see contracts/linops.py)."""
from .common import *  # noqa: F401,F403
from . import linops
from .linops import job_linop  # noqa: F401

ASSUMPTIONS = ["callee contracts of the array functions (abstract kernels keyed by every parameter; index maps from contracts/specs.py), see C05-C10",
               "structural classes: operands are arbitrary operators satisfying the class invariant (structural induction over expression trees)",
               "extents >= 1; floats as reals"]
TRUSTED = ["linear-form domain and one-point rule of pyvc/snp.py"]
BOUNDS = {"rank": "<= 3", "operands": "<= 3"}
NOT_DECIDED = ["Hstack / Vstack / Diag with axis=None on operands of rank >= 2 (flattened stacking): bounded native probe only (rank-1 operands are proved)"]


def functions():
    s = src.Source.get(linops.LINOP)
    return [s.record(q) for q in s.index if q.endswith("._adjoint_linop") or q.endswith(".__init__") or q.endswith("._apply")]


def jobs(tier):
    return linops.linop_jobs("C01", tier, "contracts.C01")


def replay_request(res):
    return linops.linop_replay_request("C01", res)


def probes(tier, seed):
    res = native("probe.py", dict(prop="C01", tier=tier, seed=seed), timeout=1500)
    if isinstance(res, dict) and res.get("error"):
        return [dict(name="native-probe", error=res["error"], cases=0)]
    return res
