"""C16 - the SENSE operator equals the explicit multi-coil encoding for every coil batch size; the recon apps hand
LinearLeastSquares exactly the operator / data / regulariser of their documented objective.

What is under contract
  * sigpy/mri/linop.py:Sense - the REAL function is run on symbolic maps / weights / coordinates of symbolic image
    extents, against the callee contracts of sigpy/linop.py's real classes (loaded as in C01) - and its result is
    compared, element by element as linear forms over the input, with the encoding written from the property text:
        (A x)[c, k]   = sqrt(w[k]) * sum_t F(k, t) mps[c, t] x[t]
        (A^H y)[t]    = sum_c conj(mps[c, t]) * sum_k conj(F(k, t)) sqrt(w[k]) y[c, k]
    F is the abstract kernel of the DFT / NUFFT callee contract (C05 / C06 decide that F is the centred unitary DFT / the
    NUDFT approximation).  Every coil_batch_size in 1..num_coils (and one above) is a separate obligation set with the
    SAME right-hand side, which is the statement "batching gives the same forward and adjoint results".
  * sigpy/mri/app.py:SenseRecon / L1WaveletRecon / TotalVariationRecon .__init__ and _estimate_weights - run for real with
    sp.app.LinearLeastSquares replaced by a recording base class: the obligations state that what is passed on is
    (A, y', lamda, proxg, g, G) of the documented objective.  "Returns the minimiser" is then the composition with the
    LinearLeastSquares contract (C14), the solver contracts (C12, C13), the prox contracts (C11) and, for
    L1WaveletRecon, unitarity of the wavelet transform (C10) - not re-proved here.
"""
import z3
from .common import *  # noqa: F401,F403
from . import linops
from .linops import FourierC, param_array
from pyvc.snp import SArr, LF, C, lf_equal_goals

MRI_LINOP = "sigpy/mri/linop.py"
MRI_APP = "sigpy/mri/app.py"
ASSUMPTIONS = ["callee contracts of sigpy/linop.py's classes as in C01-C04 (abstract DFT / NUFFT kernel named after every argument that determines it)",
               "weights are real and non-negative, without a coil axis (the shape _estimate_weights produces and Multiply broadcasts)",
               "num_coils and coil_batch_size are concrete per obligation set (1..3 quick, 1..4 thorough); image extents symbolic",
               "minimiser claim = composition with the LinearLeastSquares contract (C14) and solver contracts (C12/C13); not re-proved here",
               "comm (MPI communicator) is None"]
TRUSTED = ["linear-form domain of pyvc/snp.py", "tseg_off_res_b_ct (time-segmentation coefficient arrays) is an abstract pair of value arrays"]
BOUNDS = {"num_coils": "<= 3 (quick) / <= 4 (thorough)", "image rank": "2, 3", "image extents": ">= 2 (quick) / >= 1 (thorough), symbolic", "native probe": "shapes <= 7, coils <= 4"}
NOT_DECIDED = ["the objective-reporting closures g() of L1WaveletRecon / TotalVariationRecon (used only for save_objective_values)",
               "accuracy of F itself (C05 / C06)", "convergence of the iterative solver inside the recon apps (C12/C13 give the fixed point / rate)"]


def functions():
    return record(MRI_LINOP, "Sense") + record(MRI_APP, "_estimate_weights", "SenseRecon.__init__", "L1WaveletRecon.__init__",
                                               "TotalVariationRecon.__init__")


# ----------------------------------------------------------------------------- namespaces
def _tseg_stub(b0, bins, lseg, dt, T):
    """assumed contract: two value arrays determined by the arguments: b [time points, lseg], ct [voxels, lseg]"""
    key = linops._key("tseg", b0, bins, lseg, dt, T)
    nt = Sym(z3.Int("tseg_nt"))
    return (param_array("tsegB<%s>" % key, [nt, lseg]), param_array("tsegCt<%s>" % key, [snp.prod(b0.shape), lseg]))


def load_mri_linop(lin=None):
    lin = lin or linops.load_linop()
    mri = Mod(dict(util=Mod(dict(tseg_off_res_b_ct=_tseg_stub), "sigpy.mri.util")), "sigpy.mri")
    sp = Mod(dict(linop=lin, get_device=snp.BACKEND.get_device, mri=mri), "sigpy")
    ns = base_ns(sp=sp)
    src.load_module(MRI_LINOP, ns)
    return Mod(ns, MRI_LINOP), lin


# ----------------------------------------------------------------------------- the encoding, from the property text
def _setup(v):
    D, Cn = v["D"], v["C"]
    n = linops._shape("n", D)
    for e in n:
        core.assume(e >= v.get("min_extent", 1))
    mps = param_array("mps", [Cn] + n)
    coord = None
    kshape = list(n)
    if v.get("coord"):
        P = linops._shape("p", v.get("pts_rank", 1))
        coord = param_array("coord", P + [D])
        kshape = P
    w = None
    if v.get("weights"):
        w = SArr.input("weights", kshape, valued="nonneg")
    return n, mps, coord, kshape, w


def _F(z, coord, D):
    if coord is None:
        return FourierC.fft(z, axes=range(-D, 0))
    return FourierC.nufft(z, coord)


def _FH(z, coord, D, oshape):
    if coord is None:
        return FourierC.ifft(z, axes=range(-D, 0))
    return FourierC.nufft_adjoint(z, coord, oshape=oshape)


def spec_forward(x, mps, coord, w, D):
    out = _F(mps * x, coord, D)
    if w is not None:
        with core.spec_side():
            out = out * w ** 0.5
    return out


def spec_adjoint(y, mps, coord, w, D):
    if w is not None:
        with core.spec_side():
            y = y * w ** 0.5
    z = _FH(y, coord, D, list(mps.shape))
    return snp.sum_(snp.conj(mps) * z, axis=0)


def sense_variants(tier):
    T = tier == "thorough"
    out = []
    for D in (2, 3):
        for Cn in ((1, 2, 3, 4) if T else (1, 2, 3)):
            for coord in (False, True):
                for wts in (False, True):
                    if D == 3 and not T and (Cn != 3):
                        continue
                    for b in [None] + list(range(1, Cn + 2)):
                        out.append(dict(D=D, C=Cn, coord=coord, weights=wts, batch=b))
    out.append(dict(D=2, C=2, coord=True, weights=True, batch=1, pts_rank=2))
    out.append(dict(D=2, C=3, coord=True, weights=False, batch=2, pts_rank=2))
    # options that the batched construction has to forward as well
    for b in (None, 1, 2):
        out.append(dict(D=2, C=2, coord=True, weights=False, batch=b, tseg=2))
        out.append(dict(D=2, C=2, coord=True, weights=True, batch=b, transp=True, pts_rank=2))
    if not T:
        # quick tier: image extents >= 2 (an extent of 1 changes which axes Multiply's adjoint sums over: 2^D more paths per
        # variant, explored in the thorough tier and by the native probe)
        for v in out:
            v["min_extent"] = 2
    return out


def _tseg_dict(n, lseg):
    return dict(b0=param_array("b0", list(n)), dt=Sym(z3.Real("dt")), lseg=lseg, n_bins=Sym(z3.Int("n_bins")))


def job_sense(v, timeout_ms):
    mod, lin = load_mri_linop()
    rec = record(MRI_LINOP, "Sense")[0]
    st = {}

    def run():
        with core.functional_witnesses():
            return _run()

    def _run():
        n, mps, coord, kshape, w = _setup(v)
        st[core.cur()] = (n, mps, coord, kshape, w)
        kw = {}
        if v.get("tseg"):
            kw["tseg"] = _tseg_dict(n, v["tseg"])
            # precondition of the time-segmented model: one temporal-interpolator row per k-space sample
            core.assume(Sym(z3.Int("tseg_nt")) == coord.shape[0])
            core.assume(kw["tseg"]["dt"] > 0)
        if v.get("transp"):
            kw["transp_nufft"] = True
        A = mod.Sense(mps, coord=coord, weights=w, coil_batch_size=v.get("batch"), **kw)
        ref = None
        if v.get("tseg") or v.get("transp"):
            # the same call without batching: the reference the batched operator has to agree with
            ref = mod.Sense(mps, coord=coord, weights=w, **kw)
        return A, ref
    results = explore(run, max_paths=60)
    inst = "Sense(%s)" % linops.vlabel(v)

    def post(r):
        with core.functional_witnesses():
            return _post(r)

    def _post(r):
        if r.kind != "return":
            if v.get("transp"):
                return []       # the transposed NUFFT needs coordinate and image shapes to coincide; rejection otherwise
            return [("C16:constructs-without-error(%s)" % (r.value,), [], z3.BoolVal(False))]
        A, ref = r.value
        n, mps, coord, kshape, w = st[r.ctx]
        D, Cn = v["D"], v["C"]
        osh = [Cn] + list(kshape)
        obs = [("C16:ishape-is-the-image-shape", [], z3.And(z3.BoolVal(len(A.ishape) == D), *[core._lift(a) == core._lift(b) for a, b in zip(A.ishape, n)])),
               ("C16:oshape-is-[coils]+kspace-shape", [], z3.And(z3.BoolVal(len(A.oshape) == len(osh)), *[core._lift(a) == core._lift(b) for a, b in zip(A.oshape, osh)]))]
        if len(A.ishape) != D or len(A.oshape) != len(osh):
            return obs
        x = SArr.input("x", n)
        y = SArr.input("y", osh)
        k = [z3.Int("k%d" % d) for d in range(len(osh))]
        t = [z3.Int("t%d" % d) for d in range(D)]
        try:
            got = A.apply(x)
            gotH = A.H.apply(y)
        except (snp.ModelledError, ValueError, RuntimeError) as e:
            return obs + [("C16:apply-without-error(%s)" % type(e).__name__, [], z3.BoolVal(False))]
        if ref is not None:
            want, wantH = ref.apply(x), ref.H.apply(y)
            tagf, taga = "C16:batched-forward==unbatched-forward", "C16:batched-adjoint==unbatched-adjoint"
        else:
            want, wantH = spec_forward(x, mps, coord, w, D), spec_adjoint(y, mps, coord, w, D)
            tagf, taga = "C16:forward==sqrt(w)*F(mps*x)", "C16:adjoint==sum_c conj(mps)*F^H(sqrt(w)*y)"
        if len(got.shape) != len(osh) or len(gotH.shape) != D:
            return obs + [("C16:rank-of-result", [], z3.BoolVal(False))]
        for sfx, g in lf_equal_goals(got.elem(tuple(k)), want.elem(tuple(k))):
            obs.append(("%s[%s]" % (tagf, sfx), box(k, osh), g))
        for sfx, g in lf_equal_goals(gotH.elem(tuple(t)), wantH.elem(tuple(t))):
            obs.append(("%s[%s]" % (taga, sfx), box(t, n), g))
        return obs
    obs, covers = path_obligations("C16/sense/%s" % inst, results, post, instance=inst, fn_record=rec)
    return check_obligations(obs, timeout_ms) + covers


# ----------------------------------------------------------------------------- recon apps: what reaches LinearLeastSquares
class _Captured(Exception):
    pass


def load_mri_app():
    mod, lin = load_mri_linop()
    util = load(linops.UTIL)
    prox_ns = base_ns(util=util, thresh=None)
    src.load_module("sigpy/prox.py", prox_ns, only=["Prox", "L1Reg", "UnitaryTransform"])
    prox = Mod(prox_ns, "sigpy/prox.py")

    class LLS:
        """recording stand-in for sigpy.app.LinearLeastSquares (its own contract is C14)"""

        def __init__(self, A, y, x=None, proxg=None, lamda=0, G=None, g=None, z=None, **kwargs):
            self.A, self.y, self.x, self.proxg, self.lamda, self.G, self.g, self.z, self.kwargs = A, y, x, proxg, lamda, G, g, z, kwargs
    app = Mod(dict(LinearLeastSquares=LLS, App=object), "sigpy.app")
    sp = Mod(dict(linop=lin, prox=prox, app=app, get_device=snp.BACKEND.get_device, to_device=snp.BACKEND.to_device,
                  cpu_device=snp.BACKEND.cpu_device, rss=util.rss), "sigpy")
    ns = base_ns(sp=sp, linop=mod)
    src.load_module(MRI_APP, ns)          # the whole module: helpers a change adds next to the recon classes are executed too
    return Mod(ns, MRI_APP), mod, lin, prox


def recon_variants(tier):
    out = []
    for cls in ("SenseRecon", "L1WaveletRecon", "TotalVariationRecon"):
        for coord in (False, True):
            for wts in ("given", "none"):
                for b in (None, 1):
                    out.append(dict(cls=cls, D=2, C=2, coord=coord, weights=wts, batch=b, min_extent=(1 if tier == "thorough" else 2)))
    return out


def job_recon(v, timeout_ms):
    appmod, mod, lin, prox = load_mri_app()
    rec = record(MRI_APP, v["cls"] + ".__init__")[0]
    st = {}
    D, Cn = v["D"], v["C"]

    def run():
        with core.functional_witnesses():
            return _run()

    def _run():
        vv = dict(v, weights=(v["weights"] == "given"))
        n, mps, coord, kshape, w = _setup(vv)
        y = param_array("y", [Cn] + list(kshape))
        lam = Sym(z3.Real("lamda"))
        core.assume(lam >= 0)
        st[core.cur()] = (n, mps, coord, kshape, w, y, lam)
        cls = getattr(appmod, v["cls"])
        kw = dict(weights=w, coord=coord, coil_batch_size=v.get("batch"))
        if v["cls"] == "SenseRecon":
            return cls(y, mps, lamda=lam, **kw)
        return cls(y, mps, lam, **kw)
    results = explore(run, max_paths=40)
    inst = "%s(%s)" % (v["cls"], linops.vlabel({k: x for k, x in v.items() if k != "cls"}))

    def post(r):
        with core.functional_witnesses():
            return _post(r)

    def _post(r):
        if r.kind != "return":
            return [("C16:constructs-without-error(%s)" % (r.value,), [], z3.BoolVal(False))]
        app = r.value
        n, mps, coord, kshape, w, y, lam = st[r.ctx]
        osh = [Cn] + list(kshape)
        k = [z3.Int("k%d" % d) for d in range(len(osh))]
        t = [z3.Int("t%d" % d) for d in range(D)]
        obs = []
        # effective weights of the documented objective
        if w is None and coord is None:
            # sampling mask estimated from the data: 1 where any coil has signal
            def mask_el(kk):
                tot = None
                for c in range(Cn):
                    e = y.elem((z3.IntVal(c),) + tuple(kk)).value()
                    m2 = C(e.re * e.re + e.im * e.im)
                    tot = m2 if tot is None else tot + m2
                return LF(C._ite(core.SymBool(tot.re > 0), snp.C1, snp.C0))
            weff = SArr(list(kshape), mask_el, snp.CDT)
        else:
            weff = w
        A = app.A
        x = SArr.input("x", n)
        if len(A.ishape) != D or len(A.oshape) != len(osh):
            return [("C16:operator-shapes", [], z3.BoolVal(False))]
        got = A.apply(x)
        want = spec_forward(x, mps, coord, weff, D)
        for sfx, g in lf_equal_goals(got.elem(tuple(k)), want.elem(tuple(k))):
            obs.append(("C16:A==Sense(mps,coord,weights)[%s]" % sfx, box(k, osh), g))
        # data term: y' = sqrt(w) y   (and y itself when the weights are the estimated sampling mask, since y vanishes off the mask)
        yk = app.y.elem(tuple(k)).value()
        with core.spec_side():
            wy = y.elem(tuple(k)).value() if weff is None else y.elem(tuple(k)).value() * (weff.elem(tuple(k[1:])).value() ** 0.5)
        obs.append(("C16:data==sqrt(w)*y", box(k, osh), z3.And(yk.re == wy.re, yk.im == wy.im)))
        if w is None and coord is None:
            y0 = y.elem(tuple(k)).value()
            obs.append(("C16:estimated-mask-keeps-the-data", box(k, osh), z3.And(yk.re == y0.re, yk.im == y0.im)))
        cls = v["cls"]
        if cls == "SenseRecon":
            obs.append(("C16:lamda-forwarded", [], core._lift(app.lamda) == lam.t))
            obs.append(("C16:no-extra-regulariser", [], z3.BoolVal(app.proxg is None and app.G is None and app.g is None)))
        else:
            obs.append(("C16:no-l2-term", [], core._lift(app.lamda) == 0))
            P = app.proxg
            if cls == "TotalVariationRecon":
                G = app.G
                ok = isinstance(G, lin.Linop) and isinstance(P, prox.L1Reg)
                obs.append(("C16:G-is-an-operator,proxg-is-L1Reg", [], z3.BoolVal(bool(ok))))
                if ok:
                    gsh = [D] + list(n)
                    gshape_ok = len(G.ishape) == D and len(G.oshape) == D + 1
                    obs.append(("C16:G-maps-the-image-to-[ndim]+image", [], z3.And(z3.BoolVal(gshape_ok), *[core._lift(a) == core._lift(b) for a, b in
                                                                                                      zip(list(G.ishape) + list(G.oshape), list(n) + gsh)])))
                    if gshape_ok:
                        # documented regulariser: the finite-difference gradient  (Gx)[d, t] = x[t] - x[t - e_d]  (circular)
                        from . import specs
                        gx = G.apply(x)
                        parts = [(x - specs.spec_circshift(x, [1], axes=[d])).reshape([1] + list(n)) for d in range(D)]
                        wantg = snp.concatenate(parts, axis=0)
                        kg = [z3.Int("kg%d" % d) for d in range(D + 1)]
                        for sfx, g in lf_equal_goals(gx.elem(tuple(kg)), wantg.elem(tuple(kg))):
                            obs.append(("C16:G==finite-difference-gradient[%s]" % sfx, box(kg, gsh), g))
                    obs.append(("C16:proxg-on-G-range-with-lamda", [], z3.And(z3.BoolVal(len(P.shape) == len(G.oshape)), core._lift(P.lamda) == lam.t,
                                                                             *[core._lift(a) == core._lift(b) for a, b in zip(P.shape, G.oshape)])))
            else:
                ok = isinstance(P, prox.UnitaryTransform) and isinstance(P.prox, prox.L1Reg) and isinstance(P.A, lin.Wavelet) and app.G is None
                obs.append(("C16:proxg-is-UnitaryTransform(L1Reg,Wavelet)", [], z3.BoolVal(bool(ok))))
                if ok:
                    W = P.A
                    obs.append(("C16:W-acts-on-the-image", [], z3.And(z3.BoolVal(len(W.ishape) == D), *[core._lift(a) == core._lift(b) for a, b in zip(W.ishape, n)])))
                    obs.append(("C16:L1Reg-on-W-range-with-lamda", [], z3.And(z3.BoolVal(len(P.prox.shape) == len(W.oshape)), core._lift(P.prox.lamda) == lam.t,
                                                                             *[core._lift(a) == core._lift(b) for a, b in zip(P.prox.shape, W.oshape)])))
        return obs
    obs, covers = path_obligations("C16/recon/%s" % inst, results, post, instance=inst, fn_record=rec)
    return check_obligations(obs, timeout_ms) + covers


# ----------------------------------------------------------------------------- jobs
def jobs(tier):
    js = [Job(__name__, "job_sense", v=v) for v in sense_variants(tier)]
    js += [Job(__name__, "job_recon", v=v) for v in recon_variants(tier)]
    return js


def replay_request(res):
    import ast as _ast
    j = res["job"]
    try:
        v = _ast.literal_eval(j[j.index("v=") + 2:j.rindex(")")])
    except Exception:
        v = {}
    if "job_recon" in j:
        return dict(fn="mri.recon", args=dict(v=v))
    return dict(fn="mri.sense", args=dict(v=v))


def probes(tier, seed):
    res = native("probe.py", dict(prop="C16", tier=tier, seed=seed), timeout=2400)
    if isinstance(res, dict) and res.get("error"):
        return [dict(name="native-probe", error=res["error"], cases=0)]
    return res
