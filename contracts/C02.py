"""C02 - operators are C-linear, deterministic and never mutate their inputs.
(a) linear-form obligations on every Linop class (shared with C01, contracts/linops.py);
(b) frame obligations (modifies nothing reachable from the arguments / from self) decided by the static effect/alias analysis
    of pyvc/frame.py over the real AST; (c) determinism: _apply/_prox store to no attribute of self."""
import ast
import z3
from .common import *  # noqa: F401,F403
from . import linops
from .linops import job_linop  # noqa: F401
from pyvc import frame

ASSUMPTIONS = ["numpy view/copy table of pyvc/frame.py (which operations return views, which allocate)",
               "callee contracts as in C01 for the linear-form obligations",
               "documented in-place helpers util.axpy / util.xpay are excluded by the statement's own wording (they are the library's in-place primitives)"]
TRUSTED = ["static effect/alias analysis (pyvc/frame.py)"]
BOUNDS = {"rank": "<= 3 for the linear-form obligations; the frame analysis is unbounded"}
NOT_DECIDED = ["aliased RESULTS (Identity/Reshape/Slice returning views of the input) are reported, not violations of the statement"]

MODULES = ["sigpy/util.py", "sigpy/fourier.py", "sigpy/interp.py", "sigpy/conv.py", "sigpy/block.py", "sigpy/thresh.py", "sigpy/wavelet.py",
           "sigpy/mri/util.py", "sigpy/linop.py", "sigpy/prox.py"]
INPLACE_BY_CONTRACT = {"sigpy/util.py": {"axpy", "xpay"}}


def functions():
    out = []
    for rel in MODULES:
        s = src.Source.get(rel)
        out += [s.record(q) for q, n in s.index.items() if isinstance(n, ast.FunctionDef)]
    return out


def _summaries():
    """bottom-up: which positional parameters each (bare-named) function may mutate"""
    fns = {}
    for rel in MODULES:
        s = src.Source.get(rel)
        for node in ast.walk(s.tree):
            if isinstance(node, ast.FunctionDef):
                fns.setdefault(node.name, []).append(node)
    mut = {}
    for _ in range(4):
        changed = False
        for name, nodes in fns.items():
            for fn in nodes:
                params = [a.arg for a in fn.args.posonlyargs + fn.args.args]
                hits = frame.analyse(fn, mut)
                pos = {params.index(r) for r, _, _ in hits if r in params}
                if name in ("__init__",):
                    continue
                if pos - mut.get(name, set()):
                    mut[name] = mut.get(name, set()) | pos
                    changed = True
        if not changed:
            break
    return mut


def job_frames(timeout_ms):
    mut = _summaries()
    obs = []
    for rel in MODULES:
        s = src.Source.get(rel)
        for q, node in s.index.items():
            if not isinstance(node, ast.FunctionDef):
                continue
            parts = q.split(".")
            name = parts[-1]
            is_method = len(parts) == 2 and isinstance(s.index.get(parts[0]), ast.ClassDef)
            if is_method:
                if name not in ("_apply", "_prox", "__call__", "apply"):
                    continue
            else:
                if len(parts) != 1 or name.startswith("_"):
                    continue            # private kernels contribute through their summaries only
                if name in INPLACE_BY_CONTRACT.get(rel, ()):
                    continue
            rec = s.record(q)
            meta = dict(function=rec["function"], file=rec["file"], lines=rec["lines"], sha256=rec["sha256"], static=True)
            hits = frame.analyse(node, mut)
            params = [a.arg for a in node.args.posonlyargs + node.args.args if a.arg != "self"]
            bad_p = [(r, ln, how) for r, ln, how in hits if r in params]
            bad_s = [(r, ln, how) for r, ln, how in hits if r.startswith("self.")]
            obs.append(Obligation("C02/frame/%s/modifies-no-argument" % rec["function"], [], z3.BoolVal(not bad_p),
                                  dict(meta, mutations=["%s at line %d: %s" % h for h in bad_p], qual=q, rel=rel)))
            if is_method:
                obs.append(Obligation("C02/frame/%s/modifies-no-array-of-self" % rec["function"], [], z3.BoolVal(not bad_s),
                                      dict(meta, mutations=["%s at line %d: %s" % h for h in bad_s], qual=q, rel=rel)))
                # determinism: no attribute of self is (re)bound in _apply/_prox
                stores = [n.lineno for n in ast.walk(node) if isinstance(n, ast.Attribute) and isinstance(n.ctx, ast.Store)
                          and isinstance(n.value, ast.Name) and n.value.id == "self"]
                obs.append(Obligation("C02/frame/%s/stores-no-state" % rec["function"], [], z3.BoolVal(not stores),
                                      dict(meta, lines_of_stores=stores, qual=q, rel=rel)))
    # Linop.H / Linop.N cache only self.adj / self.normal
    s = src.Source.get("sigpy/linop.py")
    for prop_name, attr in (("H", "adj"), ("N", "normal")):
        node = s.node("Linop." + prop_name)
        stores = {n.attr for n in ast.walk(node) if isinstance(n, ast.Attribute) and isinstance(n.ctx, ast.Store)}
        rec = s.record("Linop." + prop_name)
        obs.append(Obligation("C02/frame/Linop.%s/caches-only-self.%s" % (prop_name, attr), [], z3.BoolVal(stores <= {attr}),
                              dict(function=rec["function"], file=rec["file"], lines=rec["lines"], sha256=rec["sha256"], static=True)))
    return check_obligations(obs, timeout_ms)


def jobs(tier):
    js = [Job("contracts.C02", "job_frames")]
    js += linops.linop_jobs("C02", tier, "contracts.C02")
    return js


def replay_request(res):
    if "/linop/" in res["name"]:
        return linops.linop_replay_request("C02", res)
    if "/frame/" in res["name"]:
        return dict(fn="frame.check", args=dict(function=res["meta"].get("function"), mutations=res["meta"].get("mutations", [])))
    return None


def probes(tier, seed):
    res = native("probe.py", dict(prop="C02", tier=tier, seed=seed), timeout=1500)
    if isinstance(res, dict) and res.get("error"):
        return [dict(name="native-probe", error=res["error"], cases=0)]
    return res
