"""C18 - Poisson-disc masks are binary, reproducible, calibrated and hit the acceleration.
Contracts on the real sigpy.mri.samp.poisson (executed symbolically with the numba kernel _poisson replaced by its contract) and a
static frame obligation on _poisson (the only stores to the mask write the constant 1)."""
import ast
import z3
from .common import *  # noqa: F401,F403
from pyvc.snp import SArr, LF, C

SAMP = "sigpy/mri/samp.py"
ASSUMPTIONS = [
    "contract of _poisson (from the static obligation below): it returns an ny x nx array of zeros and ones whose calibration block "
    "[int(ny/2-cy/2):int(ny/2+cy/2), int(nx/2-cx/2):int(nx/2+cx/2)] is all ones",
    "the mask returned by _poisson (after corner cropping) is not empty (otherwise numpy yields inf for the acceleration, no exception)",
    "A-numba-rng: numba's np.random.seed / random inside the jitted _poisson use numba's own generator and never touch numpy's global state "
    "(so the global state is untouched also on the raising path); probed natively",
    "numpy max of an array is attained and bounds every element; mgrid / maximum / clip / sqrt / sum contracts of pyvc/snp.py",
    "image extents >= 1, 0 <= calib < extent (calib == extent makes the normalisation 0/0: numpy yields NaN and the search ends in the ValueError, which the statement allows), tol > 0",
]
TRUSTED = ["one-generic-iteration treatment of the binary search loop (while -> single guarded iteration)"]
BOUNDS = {}
NOT_DECIDED = ["that the binary search succeeds for a given accel (it may raise, which the statement allows)",
               "the spatial statistics of the Poisson-disc process itself"]
TIMEOUT_MS = {"quick": 30000, "thorough": 120000}


def functions():
    return record(SAMP, "poisson", "_poisson")


class _Random:
    """numpy's global generator as a version counter: get_state returns the current version, seed/other writes create a
    new one, set_state(v) goes back to v"""

    def __init__(self):
        self.version = 0
        self.fresh = 0
        self.log = []

    def get_state(self):
        self.log.append("get")
        return ("state", self.version)

    def set_state(self, s):
        self.log.append("set")
        if isinstance(s, tuple) and len(s) == 2 and s[0] == "state":
            self.version = s[1]
        else:
            self.fresh += 1
            self.version = 1000 + self.fresh

    def _write(self, *a, **k):
        self.fresh += 1
        self.version = 1000 + self.fresh
        self.log.append("write")

    seed = _write

    def __getattr__(self, k):
        if k.startswith("__"):
            raise AttributeError(k)
        # any draw from the global generator advances its state
        return lambda *a, **kw: (self._write(), Sym(z3.Real(core.fresh_name("rand"))))[1]


def _run(crop_corner, seed_none):
    rnd = _Random()
    calls = []

    sums = []
    real_sum = snp.NP.sum

    class NPX(type(snp.NP)):
        random = rnd

        @staticmethod
        def sum(a, *args, **kw):
            r_ = real_sum(a, *args, **kw)
            if isinstance(a, SArr):
                sums.append((a.copy(), r_))
                core.assume(S(r_) > 0)        # the (cropped) mask is not empty: numpy would give inf, not an exception
            return r_
    npx = NPX()
    ns = base_ns(nb=None, np=npx)
    ns["np"] = npx

    def poisson_stub(nx, ny, max_attempts, radius_x, radius_y, calib, seed=None):
        calls.append(dict(nx=nx, ny=ny, seed=seed, calib=calib))
        cy0, cy1 = core.sym_trunc(S(ny) / 2 - S(calib[-2]) / 2), core.sym_trunc(S(ny) / 2 + S(calib[-2]) / 2)
        cx0, cx1 = core.sym_trunc(S(nx) / 2 - S(calib[-1]) / 2), core.sym_trunc(S(nx) / 2 + S(calib[-1]) / 2)
        m0 = z3.Function("m0.%d" % len(calls), z3.IntSort(), z3.IntSort(), z3.IntSort())

        def el(k):
            inblk = z3.And(k[0] >= cy0.t, k[0] < cy1.t, k[1] >= cx0.t, k[1] < cx1.t)
            return LF(C(Sym(z3.If(inblk, z3.IntVal(1), z3.If(m0(k[0], k[1]) != 0, z3.IntVal(1), z3.IntVal(0))))))
        return SArr((ny, nx), el, snp.FDT)
    src.load_module(SAMP, ns, only=["poisson"], transforms=(src.while_once,))
    ns["_poisson"] = poisson_stub
    ny, nx = Sym(z3.Int("ny")), Sym(z3.Int("nx"))
    cy, cx = Sym(z3.Int("cy")), Sym(z3.Int("cx"))
    accel, tol = Sym(z3.Real("accel")), Sym(z3.Real("tol"))
    core.assume(core.And(ny >= 1, nx >= 1, cy >= 0, cx >= 0, cy < ny, cx < nx, tol > 0))
    seed = None if seed_none else Sym(z3.Int("seed"))
    out = ns["poisson"]((ny, nx), accel, calib=(cy, cx), dtype="complex64", crop_corner=crop_corner, seed=seed, tol=tol)
    return out, rnd, calls, sums


def job_poisson(crop_corner, seed_none, timeout_ms):
    rec = record(SAMP, "poisson")[0]

    def run():
        snp._MAXREG[:] = []
        return _run(crop_corner, seed_none)
    results = explore(run, max_paths=64)
    inst = "crop_corner=%s,seed=%s" % (crop_corner, "None" if seed_none else "int")

    def post(r):
        ny, nx, cy, cx = [z3.Int(n) for n in ("ny", "nx", "cy", "cx")]
        accel, tol = z3.Real("accel"), z3.Real("tol")
        if r.kind != "return":
            # raising is allowed (accel <= 1, or the search failed); the global RNG is untouched by assumption A-numba-rng
            return [("raises-a-ValueError", [], z3.BoolVal(isinstance(r.value, ValueError)))]
        out, rnd, calls, sums = r.value
        obs = [("accel>1-on-every-returning-path", [], accel > 1),
               ("dtype-as-requested", [], z3.BoolVal(out.dtype == snp.as_dtype("complex64"))),
               ("shape==img_shape", [], z3.And(z3.BoolVal(len(out.shape) == 2), core._lift(out.shape[0]) == ny, core._lift(out.shape[1]) == nx) if len(out.shape) == 2 else z3.BoolVal(False)),
               ("_poisson-called-with-the-seed-and-calib", [], z3.BoolVal(len(calls) >= 1 and all((c["seed"] is None) == seed_none for c in calls)))]
        # RNG: under A-numba-rng the jitted kernel never touches numpy's global generator, so poisson() leaves the global state
        # untouched iff it does not itself write it with anything but a state it saved earlier (the get/set bracket is then redundant)
        obs.append(("rng:numpy-global-state-at-return-is-the-state-at-entry", [], z3.BoolVal(rnd.version == 0)))
        if len(out.shape) != 2:
            return obs
        k = [z3.Int("k0"), z3.Int("k1")]
        bx = box(k, [ny, nx])
        v = out.elem(tuple(k)).value()
        obs.append(("binary:only-zeros-and-ones", bx, z3.And(v.im == 0, z3.Or(v.re == 0, v.re == 1))))
        # acceleration of the RETURNED mask within tol: the code's last np.sum(mask) is over exactly the returned mask
        if not sums:
            obs.append(("accel:computed-from-np.sum(mask)", [], z3.BoolVal(False)))
        else:
            arr, tot = sums[-1]
            same = arr.elem(tuple(k)).value().re == v.re if len(arr.shape) == 2 else z3.BoolVal(False)
            obs.append(("accel:the-summed-mask-is-the-returned-mask", bx, same))
            obs.append(("accel:|nx*ny/sum(mask)-accel|<tol", [],
                        z3.And(z3.ToReal(nx * ny) / core._lift(tot) - accel < tol, accel - z3.ToReal(nx * ny) / core._lift(tot) < tol)))
        # calibration block survives (the block the mask generator fills: int() truncation of n/2 -+ c/2)
        cy0, cy1 = core.sym_trunc(S(Sym(ny)) / 2 - S(Sym(cy)) / 2), core.sym_trunc(S(Sym(ny)) / 2 + S(Sym(cy)) / 2)
        cx0, cx1 = core.sym_trunc(S(Sym(nx)) / 2 - S(Sym(cx)) / 2), core.sym_trunc(S(Sym(nx)) / 2 + S(Sym(cx)) / 2)
        inblk = [k[0] >= cy0.t, k[0] < cy1.t, k[1] >= cx0.t, k[1] < cx1.t]
        mb = snp.max_bounds((z3.IntVal(0), k[1])) + snp.max_bounds((k[0], z3.IntVal(0))) + snp.max_bounds((z3.IntVal(0), z3.IntVal(0)))
        obs.append(("calibration-block-fully-sampled(margin>=2)", bx + inblk + mb + [ny - cy >= 2, nx - cx >= 2], v.re == 1))
        obs.append(("calibration-block-fully-sampled", bx + inblk + mb, v.re == 1))
        if crop_corner:
            # for calib = 0 the kept region is the inscribed ellipse ((x-nx/2)/(nx/2))^2+((y-ny/2)/(ny/2))^2 < 1
            X, Y = (z3.ToReal(k[1]) - z3.ToReal(nx) / 2) / (z3.ToReal(nx) / 2), (z3.ToReal(k[0]) - z3.ToReal(ny) / 2) / (z3.ToReal(ny) / 2)
            obs.append(("crop:no-sample-outside-the-inscribed-ellipse(calib=0)", bx + mb + [cy == 0, cx == 0], z3.Implies(v.re == 1, X * X + Y * Y < 1)))
        return obs
    obs, covers = path_obligations("C18/poisson/%s" % inst, results, post, instance=inst, fn_record=rec)
    return check_obligations(obs, timeout_ms) + covers


def job_static(timeout_ms):
    s = src.Source.get(SAMP)
    node, rec = s.node("_poisson"), s.record("_poisson")
    meta = dict(function=rec["function"], file=rec["file"], lines=rec["lines"], sha256=rec["sha256"], static=True)
    stores = []
    other = []
    for n in ast.walk(node):
        tg = []
        if isinstance(n, ast.Assign):
            tg = [(t, n.value, "=") for t in n.targets]
        elif isinstance(n, ast.AugAssign):
            tg = [(n.target, n.value, "aug")]
        for t, val, kind in tg:
            if isinstance(t, ast.Subscript) and isinstance(t.value, ast.Name) and t.value.id == "mask":
                ok = kind == "=" and isinstance(val, ast.Constant) and val.value == 1
                stores.append((n.lineno, ok))
            if isinstance(t, ast.Name) and t.id == "mask" and not (isinstance(val, ast.Call) and ast.unparse(val).startswith("np.zeros")):
                other.append(n.lineno)
    first = [n for n in node.body if isinstance(n, ast.Assign)][0]
    obs = [Obligation("C18/_poisson/mask-starts-as-zeros", [], z3.BoolVal(ast.unparse(first).startswith("mask = np.zeros((ny, nx))")), meta),
           Obligation("C18/_poisson/every-store-to-mask-writes-the-constant-1", [], z3.BoolVal(bool(stores) and all(ok for _, ok in stores) and not other),
                      dict(meta, stores=stores)),
           ] + _calib_block_obligations(node, meta) + [
           Obligation("C18/_poisson/returns-mask", [], z3.BoolVal(ast.unparse(node.body[-1]) == "return mask"), meta),
           Obligation("C18/_poisson/seeds-its-generator-with-the-seed-argument", [], z3.BoolVal("np.random.seed(int(seed))" in ast.unparse(node)), meta)]
    # determinism of poisson: no other global reads
    pn = s.node("poisson")
    names = {n.id for n in ast.walk(pn) if isinstance(n, ast.Name) and isinstance(n.ctx, ast.Load)}
    params = {a.arg for a in pn.args.args}
    local = {n.id for n in ast.walk(pn) if isinstance(n, ast.Name) and isinstance(n.ctx, ast.Store)}
    free = names - params - local - {"np", "_poisson", "abs", "max", "ValueError"}
    obs.append(Obligation("C18/poisson/depends-only-on-its-arguments(no-other-global-reads)", [], z3.BoolVal(not free), dict(meta, free=sorted(free))))
    return check_obligations(obs, timeout_ms)


def _calib_block_obligations(node, meta):
    """semantic (not textual) obligations on the first store into `mask` in the real _poisson: it is a 2-D slice store of
    the constant 1 whose bounds, evaluated on symbolic integers 0 <= calib <= n, select exactly calib[k] consecutive
    indices, inside the image, centred (lo == (n - calib) // 2)."""
    first = None
    for n in ast.walk(node):
        if isinstance(n, ast.Assign) and isinstance(n.targets[0], ast.Subscript) and isinstance(n.targets[0].value, ast.Name) \
                and n.targets[0].value.id == "mask":
            if first is None or n.lineno < first.lineno:
                first = n
    sl = first.targets[0].slice if first is not None else None
    shape_ok = (first is not None and isinstance(first.value, ast.Constant) and first.value.value == 1 and isinstance(sl, ast.Tuple)
                and len(sl.elts) == 2 and all(isinstance(e, ast.Slice) and e.lower is not None and e.upper is not None and e.step is None for e in sl.elts))
    out = [Obligation("C18/_poisson/first-store-is-a-2-D-block-of-ones", [], z3.BoolVal(bool(shape_ok)), meta)]
    if not shape_ok:
        return out

    def run():
        nx, ny = Sym(z3.Int("nx")), Sym(z3.Int("ny"))
        cy, cx = Sym(z3.Int("calib_y")), Sym(z3.Int("calib_x"))
        core.assume(core.And(cy >= 0, cx >= 0, cy <= ny, cx <= nx, nx >= 1, ny >= 1))
        ns = base_ns(nx=nx, ny=ny, calib=[cy, cx], max_attempts=Sym(z3.Int("max_attempts")), seed=None,
                     radius_x=snp.SArr.input("radius_x", [ny, nx], valued="real"), radius_y=snp.SArr.input("radius_y", [ny, nx], valued="real"))
        # the statements of the real body that precede the store (they may define the names the bounds use)
        pre = [st for st in node.body if st.lineno < first.lineno and not (isinstance(st, ast.Expr) and isinstance(st.value, ast.Constant))]
        exec(compile(ast.fix_missing_locations(ast.Module(body=pre, type_ignores=[])), "<repo>/sigpy/mri/samp.py", "exec"), ns)
        vals = []
        for e in sl.elts:
            lo = eval(compile(ast.fix_missing_locations(ast.Expression(e.lower)), "<repo>/sigpy/mri/samp.py", "eval"), ns)
            hi = eval(compile(ast.fix_missing_locations(ast.Expression(e.upper)), "<repo>/sigpy/mri/samp.py", "eval"), ns)
            vals.append((S(lo), S(hi)))
        return vals, (ny, nx), (cy, cx)
    results = explore(run, max_paths=20)

    def post(r):
        if r.kind != "return":
            return [("calibration-slice-bounds-evaluate", [], z3.BoolVal(False))]
        vals, ns_, cs = r.value
        obs = []
        for ax, ((lo, hi), n, c) in enumerate(zip(vals, ns_, cs)):
            obs.append(("calibration-block[axis %d]:exactly-calib-samples" % ax, [], (hi - lo == c).t))
            obs.append(("calibration-block[axis %d]:inside-the-image" % ax, [], core._lb(core.And(lo >= 0, hi <= n))))
            obs.append(("calibration-block[axis %d]:centred(lo==(n-calib)//2)" % ax, [], core._lb(core.And(2 * lo <= n - c, n - c <= 2 * lo + 1))))
        return obs
    obs, covers = path_obligations("C18/_poisson", results, post, instance="_poisson", fn_record=None)
    for o in obs:
        o.meta.update({k: v for k, v in meta.items() if k not in o.meta})
    return out + obs


def probes(tier, seed):
    res = native("probe.py", dict(prop="C18", tier=tier, seed=seed), timeout=1500)
    if isinstance(res, dict) and res.get("error"):
        return [dict(name="native-probe", error=res["error"], cases=0)]
    return res


def replay_request(res):
    n = res["name"]
    m = res.get("model") or {}
    if "calibration-block-fully-sampled" in n:
        # the counter-model says n - calib < 2 on some axis: the smallest natural witness of that region
        return dict(fn="samp.poisson", args=dict(shape=(16, 16), accel=2.0, calib=(15, 15), crop_corner=True, seed=0, tol=1.0, scenario="calib-margin-1"))
    cc = "crop_corner=True" in n
    cases = [dict(fn="samp.poisson", args=dict(shape=sh, accel=ac, calib=cb, crop_corner=cc, seed=sd, tol=0.2))
             for sh in ((16, 16), (24, 16)) for ac in (2.0, 4.0) for cb in ((0, 0), (4, 4)) for sd in ((0, None) if "seed=None" in n else (0, 3))]
    return dict(fn="multi", args=dict(cases=cases))


def jobs(tier):
    M = "contracts.C18"
    js = [Job(M, "job_static")]
    for cc in (True, False):
        for sn in (False, True):
            js.append(Job(M, "job_poisson", crop_corner=cc, seed_none=sn))
    return js
