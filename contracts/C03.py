"""C03 - operator algebra agrees with matrix algebra and advertised shapes; incompatible operands are rejected."""
import z3
from .common import *  # noqa: F401,F403
from . import linops
from .linops import job_linop, make_generic, kernel_apply  # noqa: F401
from pyvc.snp import SArr, lf_equal_goals

LINOP = linops.LINOP
ASSUMPTIONS = ["operands of the structural classes are arbitrary operators (abstract kernels); callee contracts as in C01",
               "numpy slicing / reshape / concatenate / empty contracts of pyvc/snp.py", "extents >= 1"]
TRUSTED = ["linear-form domain of pyvc/snp.py"]
BOUNDS = {"rank": "<= 2 for stacking, <= 3 otherwise", "operands": "<= 3"}
NOT_DECIDED = ["_check_ishape/_check_oshape zip the two shapes and therefore do not compare rank (recorded; the per-class shape obligation carries the claim)"]


def functions():
    s = src.Source.get(LINOP)
    names = ["Linop.__mul__", "Linop.__rmul__", "Linop.__add__", "Linop.__neg__", "Linop.__sub__", "Linop.apply", "Linop._check_ishape",
             "Linop._check_oshape", "_check_compose_linops", "_combine_compose_linops", "_check_linops_same_ishape", "_check_linops_same_oshape",
             "_hstack_params", "_vstack_params", "Compose.__init__", "Compose._apply", "Add.__init__", "Add._apply", "Hstack.__init__",
             "Hstack._apply", "Vstack.__init__", "Vstack._apply", "Diag.__init__", "Diag._apply"]
    return [s.record(q) for q in names]


# ------------------------------------------------------------------ matrix-algebra semantics of the structural classes
def _gen_apply(name, osh, x):
    return kernel_apply("op:" + name, x, osh, x.ndim)


def _blocks(x, exts, axis):
    """split x along axis into consecutive blocks of the given extents"""
    out = []
    off = 0
    for e in exts:
        idx = [slice(None)] * x.ndim
        idx[axis] = slice(off, off + e)
        out.append(x[tuple(idx)])
        off = off + e
    return out


def job_structure(cls, v, timeout_ms):
    lin = linops.load_linop()
    s = src.Source.get(LINOP)
    rec = s.record(cls if cls in s.index else "Linop")
    st = {}

    def run():
        return linops.build(lin, cls, v)
    results = explore(run, max_paths=200)
    inst = "%s(%s)" % (cls, linops.vlabel(v))

    def post(r):
        if r.kind != "return":
            return [("C03:constructs-without-error", [], z3.BoolVal(False))]
        L = r.value
        x = SArr.input("x", L.ishape)
        try:
            got = L.apply(x)
        except (snp.ModelledError, ValueError, RuntimeError) as e:
            return [("C03:apply-without-error(%s)" % type(e).__name__, [], z3.BoolVal(False))]
        want = expected(lin, L, cls, v, x)
        if want is None:
            return []
        if len(got.shape) != len(want.shape):
            return [("C03:rank-of-result", [], z3.BoolVal(False))]
        k = [z3.Int("k%d" % d) for d in range(len(want.shape))]
        obs = [("C03:shape-of-matrix-expression", [], z3.And(*[core._lift(a) == core._lift(b) for a, b in zip(got.shape, want.shape)]))]
        for sfx, g in lf_equal_goals(got.elem(tuple(k)), want.elem(tuple(k))):
            obs.append(("C03:acts-as-the-matrix-expression[%s]" % sfx, box(k, want.shape), g))
        return obs
    obs, covers = path_obligations("C03/algebra/%s" % inst, results, post, instance=inst, fn_record=rec)
    return check_obligations(obs, timeout_ms) + covers


def expected(lin, L, cls, v, x):
    """the matrix expression, written from the property statement with the operands' abstract kernels"""
    ops = getattr(L, "linops", None)
    if cls == "Compose":
        y = x
        for A in reversed(ops):
            y = _gen_apply(A.gname, A.oshape, y)
        return y
    if cls == "Add" and v.get("views") == "reshape":
        a = linops._cplx("a")
        xr = x.reshape([snp.prod(x.shape)])
        return xr + xr * a
    if cls == "Add" and v.get("views") == "transpose":
        A0 = ops[1]
        return snp.transpose(x, (1, 0)) + _gen_apply(A0.gname, A0.oshape, x)
    if cls == "Add":
        y = None
        for A in ops:
            t = _gen_apply(A.gname, A.oshape, x)
            y = t if y is None else y + t
        return y
    if cls == "DiagMixed":
        parts = _blocks(x, [A.ishape[0] for A in ops], 0)
        outs = [_gen_apply(A.gname, A.oshape, p) for A, p in zip(ops, parts)]
        return snp.concatenate(outs, axis=v["oaxis"] % 2)
    if cls in ("Hstack", "Vstack", "Diag"):
        axis = v["axis"]
        rr = v.get("rank", 1)
        if cls in ("Hstack", "Diag"):
            if axis is None:
                parts = _blocks(x, [snp.prod(A.ishape) for A in ops], 0)
                parts = [p.reshape(A.ishape) for p, A in zip(parts, ops)]
            else:
                parts = _blocks(x, [A.ishape[axis % rr] for A in ops], axis % rr)
        else:
            parts = [x for _ in ops]
        outs = [_gen_apply(A.gname, A.oshape, p) for A, p in zip(ops, parts)]
        if cls == "Hstack":
            y = outs[0]
            for o in outs[1:]:
                y = y + o
            return y
        if axis is None:
            return snp.concatenate([o.ravel() for o in outs], axis=0)
        return snp.concatenate(outs, axis=axis % rr)
    if cls == "overload":
        kind = v["kind"]
        a = linops._cplx("a")
        o, i, m = L.oshape, L.ishape, None
        A = lambda y: _gen_apply("A", [Sym(z3.Int("o0"))], y)
        B = lambda y: _gen_apply("B", [Sym(z3.Int("m0"))], y)
        B2 = lambda y: _gen_apply("B2", [Sym(z3.Int("o0"))], y)
        if kind == "A*B":
            return A(B(x))
        if kind == "a*A":
            return A(x) * a
        if kind == "A*a":
            return A(x * a)
        if kind == "A+B":
            return A(x) + B2(x)
        if kind == "A-B":
            return A(x) - B2(x)
        if kind == "-A":
            return -A(x)
        b = linops._cplx("b")
        AH = lambda y: linops.kernel_apply("op:A", y, [Sym(z3.Int("m0"))], y.ndim, transposed=True)
        B3 = lambda y: _gen_apply("B3", [Sym(z3.Int("o0"))], y)
        if kind == "(a*A).H*(b*B3)":
            return AH(B3(x) * b) * a.conjugate()
        if kind == "(a*A).H*(a*A)":
            return AH(A(x) * a) * a.conjugate()
        if kind == "(a*A).H*b":
            return AH(x * b) * a.conjugate()
        return None
    return None


# ------------------------------------------------------------------ _hstack_params / _vstack_params with a symbolic axis
class SymList(list):
    """list whose __getitem__ accepts a symbolic index (ite chain over the concrete length, with an in-range obligation)"""

    def __getitem__(self, i):
        if isinstance(i, Sym):
            n = len(self)
            core.side_obligation("list-index-in-range", z3.And(i.t >= -n, i.t < n))
            r = list.__getitem__(self, n - 1)
            for j in range(n - 2, -1, -1):
                r = core.Ite(core.Or(i == j, i == j - n), list.__getitem__(self, j), r)
            return r
        return list.__getitem__(self, i)


def job_stack_params(fn, nshapes, rank, timeout_ms):
    lin = linops.load_linop()
    rec = record(LINOP, fn)[0]

    def mk():
        axis = Sym(z3.Int("axis"))
        shapes = [SymList(ints("s%d_" % j, rank)) for j in range(nshapes)]
        return axis, shapes

    def run():
        axis, shapes = mk()
        core.assume(core.And(axis >= -rank, axis < rank))
        for sh in shapes:
            for e in sh:
                core.assume(e >= 1)
        return getattr(lin, fn)(shapes, axis)
    results = explore(run, max_paths=400)
    inst = "operands=%d,rank=%d" % (nshapes, rank)

    def post(r):
        axis, shapes = mk()
        ax = axis.t
        axn = z3.If(ax < 0, ax + rank, ax)
        # operands are compatible iff every off-axis extent agrees with the first operand
        compat = z3.And(*[z3.Implies(axn != d, shapes[j][d].t == shapes[0][d].t) for j in range(1, nshapes) for d in range(rank)]) if nshapes > 1 else z3.BoolVal(True)
        if r.kind != "return":
            return [("C03:raises-only-for-incompatible-operands", [], z3.Not(compat))]
        shape, indices = r.value
        obs = [("C03:returns-only-for-compatible-operands", [], compat),
               ("C03:number-of-split-indices", [], z3.BoolVal(len(indices) == nshapes - 1 and len(shape) == rank))]
        if len(indices) != nshapes - 1 or len(shape) != rank:
            return obs
        for d in range(rank):
            tot = z3.Sum([shapes[j][d].t for j in range(nshapes)])
            obs.append(("C03:extent[%d]==sum-along-axis-else-common" % d, [], core._lift(shape[d]) == z3.If(axn == d, tot, shapes[0][d].t)))
        for j in range(nshapes - 1):
            pref = z3.Sum([z3.If(axn == d, shapes[m][d].t, 0) for m in range(j + 1) for d in range(rank)])
            obs.append(("C03:split-index[%d]==prefix-sum" % j, [], core._lift(indices[j]) == pref))
        return obs
    obs, covers = path_obligations("C03/%s/%s" % (fn, inst), results, post, instance=inst, fn_record=rec)
    return check_obligations(obs, timeout_ms) + covers


# ------------------------------------------------------------------ rejection of operands that do not fit
def job_reject(kind, timeout_ms):
    lin = linops.load_linop()
    rec = record(LINOP, {"compose": "_check_compose_linops", "add": "Add.__init__", "apply": "Linop._check_ishape",
                         "add-rank-o": "_check_linops_same_oshape", "add-rank-i": "_check_linops_same_ishape",
                         "hstack-rank": "_check_linops_same_oshape", "vstack-rank": "_check_linops_same_ishape",
                         "compose-rank": "_check_compose_linops"}[kind])[0]
    G = make_generic(lin)

    def mk():
        return [Sym(z3.Int(n)) for n in ("a", "b", "c", "d")]

    def run():
        a, b, c, d = mk()
        for e in (a, b, c, d):
            core.assume(e >= 1)
        if kind == "compose":
            return lin.Compose([G("A", [a], [b]), G("B", [c], [d])])
        if kind == "add":
            return lin.Add([G("A", [a], [b]), G("B", [c], [d])])
        if kind == "apply":
            return G("A", [a], [b]).apply(SArr.input("x", [c]))
        # operands whose shapes differ in RANK (equal leading extents are possible): must always be rejected
        if kind == "add-rank-o":
            return lin.Add([G("A", [a, b], [c]), G("B", [d], [c])])
        if kind == "add-rank-i":
            return lin.Add([G("A", [c], [a, b]), G("B", [c], [d])])
        if kind == "hstack-rank":
            return lin.Hstack([G("A", [a, b], [c]), G("B", [d], [c])], axis=0)
        if kind == "vstack-rank":
            return lin.Vstack([G("A", [c], [a, b]), G("B", [c], [d])], axis=0)
        if kind == "compose-rank":
            return lin.Compose([G("A", [a], [b, c]), G("B", [d], [a])])
    results = explore(run)

    def post(r):
        a, b, c, d = mk()
        fits = {"compose": b.t == c.t, "add": z3.And(a.t == c.t, b.t == d.t), "apply": b.t == c.t}.get(kind, z3.BoolVal(False))
        if r.kind == "return":
            return [("C03:accepted-only-if-shapes-fit", [], fits)]
        return [("C03:rejected-only-if-shapes-do-not-fit", [], z3.Not(fits))]
    obs, covers = path_obligations("C03/reject/%s" % kind, results, post, instance=kind, fn_record=rec)
    return check_obligations(obs, timeout_ms) + covers


def jobs(tier):
    M = "contracts.C03"
    js = []
    for cls, v in linops.variants(tier):
        js.append(Job(M, "job_linop", prop="C03", cls=cls, v=v))
        if cls in ("Compose", "Add", "Hstack", "Vstack", "Diag", "DiagMixed", "overload"):
            js.append(Job(M, "job_structure", cls=cls, v=v))
    for fn in ("_hstack_params", "_vstack_params"):
        for nshapes, rank in ((1, 1), (2, 1), (2, 2), (3, 2), (2, 3)) + (((3, 3), (4, 2)) if tier == "thorough" else ()):
            js.append(Job(M, "job_stack_params", fn=fn, nshapes=nshapes, rank=rank))
    for kind in ("compose", "add", "apply", "add-rank-o", "add-rank-i", "hstack-rank", "vstack-rank", "compose-rank"):
        js.append(Job(M, "job_reject", kind=kind))
    return js


def replay_request(res):
    if "/linop/" in res["name"]:
        return linops.linop_replay_request("C03", res)
    if "/algebra/" in res["name"]:
        rq = linops.linop_replay_request("C03", res)
        rq["args"]["props"] = ["C03", "C03alg"]
        return rq
    if "_params/" in res["name"]:
        m = res.get("model") or {}
        fn = "_hstack_params" if "_hstack_params" in res["name"] else "_vstack_params"
        inst = res["meta"].get("instance", "")
        nsh, rank = int(inst.split("operands=")[1].split(",")[0]), int(inst.split("rank=")[1])
        shapes = [[max(1, min(9, model_int(m, "s%d_%d" % (j, d), 2))) for d in range(rank)] for j in range(nsh)]
        return dict(fn="linop.stack_params", args=dict(which=fn, shapes=shapes, axis=model_int(m, "axis", 0)))
    if "/reject/" in res["name"]:
        m = res.get("model") or {}
        return dict(fn="linop.reject", args=dict(kind=res["meta"].get("instance"), a=model_int(m, "a", 2), b=model_int(m, "b", 3),
                                                 c=model_int(m, "c", 3), d=model_int(m, "d", 2)))
    return None


def probes(tier, seed):
    res = native("probe.py", dict(prop="C03", tier=tier, seed=seed), timeout=1500)
    if isinstance(res, dict) and res.get("error"):
        return [dict(name="native-probe", error=res["error"], cases=0)]
    return res
