"""C14 - LinearLeastSquares returns the documented minimiser whatever the solver.
The real __init__/_get_alg/_get_* set-up code of sigpy.app.LinearLeastSquares is executed over the complete option lattice
on abstract operators/vectors; every constructor it calls is interpreted through its class contract:
  CG   : the system (M, b) handed to ConjugateGradient is the normal equation of the documented objective (g = 0);
  GM   : the gradient closure is grad of the smooth part, proxg is forwarded, the default step is 1/lambda_max(A^H A + lamda I);
  PDHG : the triple (proxfc, proxg, K) denotes  f(Kx) + g~(x)  equal to the documented objective (problem algebra, UF terms);
  ADMM : minL_x solves the x-update of the scaled augmented Lagrangian, minL_v is prox_{g/rho}(Gx+u), multiplier update u += Gx - v;
frames: y, z are never modified (also when A.H returns its argument itself, as Identity/Reshape do); the returned array is the one updated."""
import itertools
import z3
from .common import *  # noqa: F401,F403
from pyvc import gram

APP = "sigpy/app.py"
PROX = "sigpy/prox.py"
UTIL = "sigpy/util.py"
ASSUMPTIONS = [
    "class contracts of the algorithms (C12/C13/C15): CG solves Mx=b; GradientMethod's fixed points are zeros of grad f + subdiff g; "
    "PDHG's fixed points are saddle points of <Kx,u> - f*(u) + g~(x); ADMM's are KKT points of the split problem (convergence cited)",
    "A.N denotes A^H A (C04); conjugate table: (0.5|.-y|^2)* = 0.5|.|^2 + <.,y>, i.e. L2Reg(1, y=-y) is the prox of the conjugate of the data term (cited)",
    "Linop.apply may return its argument itself or a view of it (Identity, Reshape, Transpose, Slice, Multiply by 1): frame scenarios use such an A",
]
TRUSTED = ["Gram abstraction; problem algebra over uninterpreted A, G, g"]
BOUNDS = {"option lattice": "complete: solver x proxg x G x lamda{0,>0} x z x {P,alpha,tau,sigma} given/defaulted x x given/None"}
NOT_DECIDED = ["adequacy of the power-method estimate used for default step sizes", "convergence of each algorithm to its fixed points (cited)"]


def functions():
    return record(APP, "LinearLeastSquares.__init__", "LinearLeastSquares._get_alg", "LinearLeastSquares._get_ConjugateGradient",
                  "LinearLeastSquares._get_GradientMethod", "LinearLeastSquares._get_PrimalDualHybridGradient",
                  "LinearLeastSquares._get_ADMM", "LinearLeastSquares._output")


# ----------------------------------------------------------------------------- abstract operators on Gram vectors
class PVec:
    """element of a product space (Vstack output / Stack input)"""

    def __init__(self, parts):
        self.parts = list(parts)
        self.dtype = "gvec"

    @property
    def shape(self):
        return ("prod",) + tuple(p.shape for p in self.parts)

    def copy(self):
        return PVec([p.copy() for p in self.parts])

    def _zip(self, o, f):
        if isinstance(o, PVec):
            return PVec([f(a, b) for a, b in zip(self.parts, o.parts)])
        return PVec([f(a, o) for a in self.parts])

    def __add__(self, o):
        return self._zip(o, lambda a, b: a + b)

    __radd__ = __add__

    def __sub__(self, o):
        return self._zip(o, lambda a, b: a - b)

    def __mul__(self, c):
        return PVec([a * c for a in self.parts])

    __rmul__ = __mul__

    def __truediv__(self, c):
        return PVec([a / c for a in self.parts])

    def __neg__(self):
        return self * -1

    def __iadd__(self, o):
        r = self + o
        for a, b in zip(self.parts, r.parts):
            a._assign(b)
        return self

    def __itruediv__(self, c):
        for a in self.parts:
            a /= c
        return self

    def __setitem__(self, idx, v):
        for a, b in zip(self.parts, v.parts):
            a[...] = b


class Lin:
    """abstract linear operator term"""

    def __init__(self, sp, kind, args=(), ishape=None, oshape=None, alias=False):
        self.sp, self.kind, self.args = sp, kind, tuple(args)
        self.ishape, self.oshape = ishape, oshape
        self.alias = alias
        self.repr_str = kind

    # --- construction
    @staticmethod
    def named(sp, name, dom, rng, alias=False):
        sp.op(name, dom=dom, rng=rng, adjoint=name + "H" if dom != rng or True else None)
        return Lin(sp, "op", (name,), ishape=["n%d" % dom], oshape=["n%d" % rng], alias=alias)

    def apply(self, v):
        k = self.kind
        if k == "op":
            if self.alias:
                return v                      # the operator returns its argument itself (Identity-like)
            return gram.Op(self.sp, self.args[0])(v)
        if k == "id":
            return v
        if k == "scale":
            return v * self.args[0]
        if k == "sum":
            return self.args[0].apply(v) + self.args[1].apply(v)
        if k == "comp":
            return self.args[0].apply(self.args[1].apply(v))
        if k == "vstack":
            return PVec([a.apply(v) for a in self.args])
        if k == "vstackH":
            acc = None
            for a, p in zip(self.args, v.parts):
                t = a.H.apply(p)
                acc = t if acc is None else acc + t
            return acc
        raise core.Unsupported("Lin kind %s" % k)

    def __call__(self, v):
        if isinstance(v, Lin):
            return Lin(self.sp, "comp", (self, v), ishape=v.ishape, oshape=self.oshape)
        return self.apply(v)

    def __mul__(self, o):
        if isinstance(o, Lin):
            return Lin(self.sp, "comp", (self, o), ishape=o.ishape, oshape=self.oshape)
        if isinstance(o, (gram.GVec, PVec)):
            return self.apply(o)
        return Lin(self.sp, "comp", (self, Lin(self.sp, "scale", (o,), self.ishape, self.ishape)), self.ishape, self.oshape)

    def __rmul__(self, c):
        return Lin(self.sp, "comp", (Lin(self.sp, "scale", (c,), self.oshape, self.oshape), self), self.ishape, self.oshape)

    def __add__(self, o):
        return Lin(self.sp, "sum", (self, o), self.ishape, self.oshape)

    def __neg__(self):
        return -1 * self

    @property
    def H(self):
        k = self.kind
        if k == "op":
            n = self.args[0]
            hn = n[:-1] if n.endswith("H") else n + "H"
            return Lin(self.sp, "op", (hn,), ishape=self.oshape, oshape=self.ishape, alias=self.alias)
        if k in ("id", "scale"):
            return self
        if k == "sum":
            return Lin(self.sp, "sum", (self.args[0].H, self.args[1].H), self.oshape, self.ishape)
        if k == "comp":
            return Lin(self.sp, "comp", (self.args[1].H, self.args[0].H), self.oshape, self.ishape)
        if k == "vstack":
            return Lin(self.sp, "vstackH", self.args, self.oshape, self.ishape)
        raise core.Unsupported("adjoint of %s" % k)

    @property
    def N(self):
        return Lin(self.sp, "comp", (self.H, self), self.ishape, self.ishape)


class Captured:
    def __init__(self, name, args, kw):
        self.name, self.args, self.kw = name, args, kw
        self.max_iter = kw.get("max_iter")
        self.resid = 0

    def done(self):
        return True

    def update(self):
        pass


def _load(sp, captures, maxeigs):
    uns = dict(np=gram.GNP, backend=gram.GBACKEND)
    uns.update(snp.builtins_ns())
    src.load_module(UTIL, uns, only=["axpy", "xpay"])

    def split(vec, shapes):
        if isinstance(vec, PVec):
            return list(vec.parts)
        return [vec]

    def vec(parts):
        return PVec(parts)

    def prod(shape):
        return 1
    uns.update(split=split, vec=vec, prod=prod)
    util = Mod(uns, UTIL)
    pns = dict(np=gram.GNP, backend=gram.GBACKEND, util=util, thresh=None)
    pns.update(snp.builtins_ns())
    src.load_module(PROX, pns)
    prox = Mod(pns, PROX)

    class LinopMod:
        @staticmethod
        def Identity(shape):
            return Lin(sp, "id", (), list(shape), list(shape))

        @staticmethod
        def Multiply(shape, c):
            return Lin(sp, "scale", (c,), list(shape), list(shape))

        @staticmethod
        def Vstack(ops):
            return Lin(sp, "vstack", tuple(ops), ops[0].ishape, ["prod"])

    def cap(name):
        def f(*a, **k):
            c = Captured(name, a, k)
            captures.append(c)
            return c
        return f

    class MaxEig:
        def __init__(self, A, **kw):
            self.A = A

        def run(self):
            v = Sym(z3.Real("maxeig%d" % len(maxeigs)))
            core.assume(v > 0)
            maxeigs.append((self.A, v))
            return v

    class _T:
        @staticmethod
        def time():
            return 0.0
    class NPX:
        float64 = "float64"
        complex64 = "complex64"
        complex128 = "complex128"
        inf = core.INF

        def __getattr__(self, k):
            return getattr(gram.GNP, k)
    ns = dict(np=NPX(), backend=gram.GBACKEND, linop=LinopMod, prox=prox, util=util, time=_T, tqdm=None,
              ADMM=cap("ADMM"), ConjugateGradient=cap("ConjugateGradient"), GradientMethod=cap("GradientMethod"),
              PowerMethod=None, PrimalDualHybridGradient=cap("PrimalDualHybridGradient"))
    ns.update(snp.builtins_ns())
    src.load_module(APP, ns, only=["App", "LinearLeastSquares", "MaxEig"])
    ns["MaxEig"] = MaxEig

    class AppStub(ns["App"]):
        pass
    return Mod(ns, APP), prox


class GProx:
    """user-supplied proximal operator of g: abstract function on vectors; records calls"""

    def __init__(self, sp, space, shape):
        self.sp, self.space, self.shape = sp, space, shape
        self.calls = []

    def __call__(self, alpha, v):
        self.calls.append((alpha, v.copy()))
        return self.sp.base("proxg%d" % len(self.calls), self.space)


def _setup(opts, alias):
    """build a LinearLeastSquares instance through the real __init__; returns everything the postconditions need"""
    sp = gram.Space()
    captures, maxeigs = [], []
    app, prox = _load(sp, captures, maxeigs)
    A = Lin.named(sp, "A", 0, 0 if alias else 1, alias=alias)
    y = sp.base("y", 0 if alias else 1)
    has_G = opts["G"]
    G = Lin.named(sp, "G", 0, 2) if has_G else None
    z = sp.base("z", 0) if opts["z"] else None
    x = sp.base("x0", 0) if opts["x"] else None
    lam = Sym(z3.Real("lamda")) if opts["lam"] else 0
    if opts["lam"]:
        core.assume(lam > 0)
    proxg = GProx(sp, 2 if has_G else 0, ["n2" if has_G else "n0"]) if opts["proxg"] else None
    kw = dict(x=x, proxg=proxg, lamda=lam, G=G, z=z, solver=opts["solver"], show_pbar=False)
    for nm in ("P", "alpha", "tau", "sigma", "rho"):
        if opts.get(nm):
            if nm == "P":
                kw["P"] = Lin.named(sp, "P", 0, 0)
            else:
                v = Sym(z3.Real(nm))
                core.assume(v > 0)
                kw[nm] = v
    if x is None:
        # y_device.xp.zeros(A.ishape): a fresh zero vector
        gram.GNP.__class__.zeros = staticmethod(lambda shape, dtype=None: sp.zero(0))
        gram.GNP.__class__.zeros_like = staticmethod(lambda v: v * 0)
    else:
        gram.GNP.__class__.zeros = staticmethod(lambda shape, dtype=None: sp.zero(1 if shape == ["n1"] else (2 if shape == ["n2"] else 0)) if shape != ["prod"] else PVec([sp.zero(1), sp.zero(2)]))
        gram.GNP.__class__.zeros_like = staticmethod(lambda v: v * 0)
    snap = dict(y=y.copy(), z=None if z is None else z.copy())
    obj = app.LinearLeastSquares(A, y, **kw)
    return dict(sp=sp, app=obj, A=A, G=G, y=y, z=z, x=x, lam=lam, proxg=proxg, captures=captures, maxeigs=maxeigs, snap=snap, prox=prox, kw=kw)


def _zeros_factory(sp):
    def zeros(shape, dtype=None):
        if shape == ["prod"]:
            return PVec([sp.zero(1), sp.zero(2)])
        return sp.zero({"n0": 0, "n1": 1, "n2": 2}.get(shape[0] if shape else "n0", 0))
    return zeros


def _doc_grad(st, x):
    """gradient of the smooth part of the documented objective 0.5|Ax-y|^2 + lamda/2 |x-z|^2 at x"""
    A, y, z, lam = st["A"], st["y"], st["z"], st["lam"]
    g = A.H.apply(A.apply(x)) - A.H.apply(st["snap"]["y"])
    if not (isinstance(st["lam"], int) and st["lam"] == 0):
        g = g + (x - (st["snap"]["z"] if z is not None else x * 0)) * lam
    return g


def _same(a, b):
    return a.same_vector(b)


def _frames(st):
    obs = [("frame:y-unmodified", [], _same(st["y"], st["snap"]["y"]))]
    if st["z"] is not None:
        obs.append(("frame:z-unmodified", [], _same(st["z"], st["snap"]["z"])))
    return obs


OPTS = ("proxg", "G", "lam", "z", "x")


def job_setup(solver, proxg, G, lam, z, x, extra, alias, timeout_ms):
    qual = {None: "_get_alg", "ConjugateGradient": "_get_ConjugateGradient", "GradientMethod": "_get_GradientMethod",
            "PrimalDualHybridGradient": "_get_PrimalDualHybridGradient", "ADMM": "_get_ADMM"}.get(solver, "_get_alg")
    rec = record(APP, "LinearLeastSquares." + qual)[0]
    opts = dict(solver=solver, proxg=proxg, G=G, lam=lam, z=z, x=x)
    opts.update({k: True for k in extra})

    def run():
        st = _setup(opts, alias)
        return st
    # zeros(): install before the run (module-level stub shared by the loaded code)
    results = explore(_with_zeros(run))
    inst = "solver=%s,proxg=%d,G=%d,lamda>0=%d,z=%d,x=%d,given=%s,A.H-returns-its-argument=%d" % (solver, proxg, G, lam, z, x, "+".join(extra) or "-", alias)

    def post(r):
        eff = solver
        if eff is None:
            eff = "ConjugateGradient" if not proxg else ("GradientMethod" if not G else "PrimalDualHybridGradient")
        must_raise = (eff == "ConjugateGradient" and proxg) or (eff == "GradientMethod" and G) or eff not in (
            "ConjugateGradient", "GradientMethod", "PrimalDualHybridGradient", "ADMM")
        if r.kind != "return":
            return [("unsupported-combination-raises(only)", [], z3.BoolVal(bool(must_raise)))]
        if must_raise:
            return [("unsupported-combination-raises", [], z3.BoolVal(False))]
        st = r.value
        return _post(st, eff, opts)
    obs, covers = path_obligations("C14/setup/%s" % inst, results, post, instance=inst, fn_record=rec)
    return check_obligations(obs, timeout_ms) + covers


def _with_zeros(run):
    def wrapped():
        # the stub xp.zeros needs the per-path space: _setup installs it through this hook
        return run()
    return wrapped


def _post(st, eff, opts):
    sp, app, A, G, lam = st["sp"], st["app"], st["A"], st["G"], st["lam"]
    caps = st["captures"]
    obs = []
    xs = sp.base("xg", 0)                   # generic point
    top = [c for c in caps if c.name == eff]
    obs.append(("constructs-the-requested-algorithm", [], z3.BoolVal(len(top) == 1 and app.alg is top[0])))
    if len(top) != 1:
        return obs
    alg = top[0]
    obs.append(("returned-array-is-the-one-the-algorithm-updates", [], z3.BoolVal(app._output() is app.x and (st["x"] is None or app.x is st["x"]))))
    lamt = core._lift(lam)
    if eff == "ConjugateGradient":
        M, b, xarg = alg.args[0], alg.args[1], alg.args[2]
        obs.append(("CG:x-argument-is-self.x", [], z3.BoolVal(xarg is app.x)))
        # normal equations of the documented objective with g = 0:  grad F(x) = M x - b
        obs.append(("CG:Mx-b==gradient-of-documented-objective", [], _same(M.apply(xs) - b, _doc_grad(st, xs))))
        obs.append(("CG:preconditioner-forwarded", [], z3.BoolVal(alg.kw.get("P") is st["kw"].get("P"))))
        obs += _frames(st)
    elif eff == "GradientMethod":
        gradf, xarg, alpha = alg.args[0], alg.args[1], alg.args[2]
        obs.append(("GM:x-argument-is-self.x", [], z3.BoolVal(xarg is app.x)))
        obs.append(("GM:gradf==gradient-of-smooth-part", [], _same(gradf(xs.copy()), _doc_grad(st, xs))))
        obs.append(("GM:proxg-forwarded", [], z3.BoolVal(alg.kw.get("proxg") is st["proxg"])))
        if "alpha" in st["kw"]:
            obs.append(("GM:given-step-forwarded", [], core._lift(alpha) == z3.Real("alpha")))
        else:
            ok = len(st["maxeigs"]) == 1
            obs.append(("GM:default-step-from-one-power-iteration", [], z3.BoolVal(ok)))
            if ok:
                Mop, v = st["maxeigs"][0]
                L = A.H.apply(A.apply(xs)) + (xs * lam if opts["lam"] else xs * 0)
                obs.append(("GM:power-iteration-on-A^HA+lamda*I", [], _same(Mop.apply(xs), L)))
                obs.append(("GM:alpha==1/max_eig", [], core._lift(alpha) * v.t == 1))
        obs += _frames(st)
        # the closure must not modify y/z when called
        obs += [("GM:" + n, h, g) for n, h, g in _frames(st)]
    elif eff == "PrimalDualHybridGradient":
        obs += _pdhg_post(st, alg, opts)
        obs += _frames(st)
    elif eff == "ADMM":
        obs += _admm_post(st, alg, opts)
    return obs


# ----------------------------------------------------------------------------- PDHG: problem algebra
V = z3.DeclareSort("Vec")
hs = z3.Function("half_sq", V, z3.RealSort())            # 0.5|.|^2
vsub = z3.Function("vsub", V, V, V)
gfun = z3.Function("g", V, z3.RealSort())
Aop = z3.Function("A.", V, V)
Gop = z3.Function("G.", V, V)
yv, zv, zero = z3.Const("y.", V), z3.Const("z.", V), z3.Const("0.", V)


def _fn_of_prox(p, st, lam):
    """the function a constructed Prox object is the proximal operator of, as a python callable V-term -> Real-term,
    or ('conj', f) / ('stack', [...]) markers"""
    prox = st["prox"]
    if isinstance(p, GProx):
        return lambda v: gfun(v)
    cls = type(p).__name__
    if cls == "NoOp":
        return lambda v: z3.RealVal(0)
    if cls == "L2Reg":
        lm = core._lift(p.lamda)
        inner = _fn_of_prox(p.proxh, st, lam) if p.proxh is not None else (lambda v: z3.RealVal(0))
        if p.y is None:
            ref = None
        else:
            ref = p.y
        tag = None
        if ref is not None:
            # which vector is the reference point?  (GVec: compare with y, -y, z)
            if ref.same_vector(st["snap"]["y"] * -1) is not None and z3.is_true(z3.simplify(ref.same_vector(st["snap"]["y"] * -1))):
                tag = "-y"
            elif st["snap"]["z"] is not None and z3.is_true(z3.simplify(ref.same_vector(st["snap"]["z"]))):
                tag = "z"
            elif z3.is_true(z3.simplify(ref.same_vector(st["snap"]["y"]))):
                tag = "y"
            else:
                tag = "?"
        if tag == "-y":
            return ("datafit-conjugate", lm)          # lamda/2 |. + y|^2 : with lamda = 1 the conjugate of 0.5|.-y|^2 up to a constant
        if tag == "?":
            return lambda v: z3.Real("unknown-reference")
        refv = {None: None, "z": zv, "y": yv}[tag]
        return lambda v: lm * 2 * hs(v if refv is None else vsub(v, refv)) / 2 * 1 + inner(v) if False else (lm * hs(v if refv is None else vsub(v, refv)) + inner(v))
    if cls == "Conj":
        return ("conj", _fn_of_prox(p.prox, st, lam))
    if cls == "Stack":
        return ("stack", [_fn_of_prox(q, st, lam) for q in p.proxs])
    return lambda v: z3.Real("unknown-prox-%s" % cls)


def _pdhg_post(st, alg, opts):
    sp, app, A, G, lam = st["sp"], st["app"], st["A"], st["G"], st["lam"]
    proxfc, proxg, K, KH, xarg, u, tau, sigma = alg.args[:8]
    obs = [("PDHG:x-argument-is-self.x", [], z3.BoolVal(xarg is app.x)),
           ("PDHG:AH-is-the-adjoint-of-the-operator-passed", [], z3.BoolVal(KH.kind in ("vstackH",) and K.kind == "vstack" and KH.args == K.args
                                                                              or (K.kind == "op" and KH.kind == "op" and KH.args[0] == K.H.args[0])))]
    xg = z3.Const("x.", V)
    lamt = core._lift(lam)
    F_doc = hs(vsub(Aop(xg), yv))
    if opts["proxg"]:
        F_doc = F_doc + gfun(Gop(xg) if opts["G"] else xg)
    if opts["lam"]:
        F_doc = F_doc + lamt * hs(vsub(xg, zv) if opts["z"] else xg)
    # rows of K as V-term maps
    rows = [Aop] if K.kind == "op" else [Aop if a.args[0] == "A" else Gop for a in K.args]
    fc = _fn_of_prox(proxfc, st, lam)

    def primal_terms(f):
        if isinstance(f, tuple) and f[0] == "stack":
            return [t for q in f[1] for t in primal_terms(q)]
        if isinstance(f, tuple) and f[0] == "conj":
            return [f[1]]                          # (h*)* = h  (h closed convex)
        if isinstance(f, tuple) and f[0] == "datafit-conjugate":
            return [("datafit", f[1])]
        return [("unknown-dual-term", f)]
    terms = primal_terms(fc)
    ok = len(terms) == len(rows)
    obs.append(("PDHG:one-dual-block-per-operator-row", [], z3.BoolVal(ok)))
    if not ok:
        return obs
    F = z3.RealVal(0)
    side = []
    for t, row in zip(terms, rows):
        v = row(xg)
        if isinstance(t, tuple) and t[0] == "datafit":
            side.append(t[1] == 1)                 # the conjugate table entry needs unit weight
            F = F + hs(vsub(v, yv))
        elif isinstance(t, tuple):
            F = F + z3.Real("unknown-dual-term")
        else:
            F = F + t(v)
    gt = _fn_of_prox(proxg, st, lam)
    F = F + (gt(xg) if callable(gt) else z3.Real("unknown-primal-term"))
    obs.append(("PDHG:data-term-conjugate-has-unit-weight", [], z3.And(*side) if side else z3.BoolVal(True)))
    obs.append(("PDHG:constructed-saddle-problem==documented-objective", [], F == F_doc))
    # step sizes
    if "tau" in st["kw"] and "sigma" in st["kw"]:
        obs.append(("PDHG:given-steps-forwarded", [], z3.And(core._lift(tau) == z3.Real("tau"), core._lift(sigma) == z3.Real("sigma"))))
    else:
        okm = len(st["maxeigs"]) == 1
        obs.append(("PDHG:one-power-iteration-for-the-missing-step", [], z3.BoolVal(okm)))
        if okm:
            Mop, v = st["maxeigs"][0]
            xs = sp.base("xg", 0)
            if "tau" not in st["kw"]:
                want = K.H.apply(K.apply(xs) * sigma) if K.kind == "op" else K.H.apply(K.apply(xs) * sigma)
                obs.append(("PDHG:tau==1/lambda_max(K^H sigma K)", [], z3.And(_same(Mop.apply(xs), want), core._lift(tau) * v.t == 1)))
            else:
                us = PVec([sp.base("ug1", 1), sp.base("ug2", 2)]) if K.kind == "vstack" else sp.base("ug1", 1)
                want = K.apply(K.H.apply(us) * tau)
                try:
                    got = Mop.apply(us)
                    if isinstance(got, PVec) != isinstance(want, PVec):
                        same = z3.BoolVal(False)
                    else:
                        same = z3.And(*[_same(a, b) for a, b in zip(got.parts, want.parts)]) if isinstance(got, PVec) else _same(got, want)
                except (core.Unsupported, AttributeError, TypeError):
                    same = z3.BoolVal(False)        # the operator handed to the power iteration does not even act on the dual space of K
                obs.append(("PDHG:sigma==1/lambda_max(K tau K^H)", [], z3.And(same, core._lift(sigma) * v.t == 1)))
    # acceleration parameters must describe strong convexity that is really there
    gp, gd = alg.kw.get("gamma_primal", 0), alg.kw.get("gamma_dual", 0)
    obs.append(("PDHG:gamma_primal<=strong-convexity-of-the-primal-prox-term", [],
                core._lift(gp) <= (lamt if (opts["lam"] and type(proxg).__name__ == "L2Reg") else z3.RealVal(0))))
    obs.append(("PDHG:gamma_dual<=strong-convexity-of-the-dual-term", [], core._lift(gd) <= (z3.RealVal(1) if K.kind == "op" else z3.RealVal(0))))
    return obs


def _admm_post(st, alg, opts):
    sp, app, A, G, lam = st["sp"], st["app"], st["A"], st["G"], st["lam"]
    minL_x, minL_v, xarg, v, u, Aarg, Barg, carg = alg.args[:8]
    rho = app.rho
    caps = st["captures"]
    obs = [("ADMM:x-argument-is-self.x", [], z3.BoolVal(xarg is app.x))]
    # generic state
    xs, vs, us = sp.base("xg", 0), sp.base("vg", 2 if G else 0), sp.base("ug", 2 if G else 0)
    app.x._assign(xs)
    v._assign(vs)
    u._assign(us)
    n0 = len(caps)
    import contracts.C14 as me
    # run the x-minimisation closure: it builds a CG on (M, b, x)
    app_ns_App = None
    minL_x()
    cg = [c for c in caps[n0:] if c.name == "ConjugateGradient"]
    obs.append(("ADMM:minL_x-solves-one-linear-system-for-self.x", [], z3.BoolVal(len(cg) == 1 and cg[0].args[2] is app.x)))
    if len(cg) == 1:
        M, b = cg[0].args[0], cg[0].args[1]
        xt = sp.base("xt", 0)
        Gx = (G.apply(xt) if G else xt)
        aug = (G.H.apply(Gx - vs + us) if G else (Gx - vs + us)) * rho
        want = _doc_grad(st, xt) + aug
        obs.append(("ADMM:Mx-b==gradient-of-augmented-lagrangian-in-x", [], _same(M.apply(xt) - b, want)))
        obs.append(("ADMM:preconditioner-forwarded", [], z3.BoolVal(cg[0].kw.get("P") is st["kw"].get("P"))))
    obs += [("ADMM:after-minL_x:" + n, h, g) for n, h, g in _frames(st)]
    # v-minimisation
    app.x._assign(xs)
    v._assign(vs)
    u._assign(us)
    minL_v()
    Gx = G.apply(xs) if G else xs
    if st["proxg"] is not None:
        pc = st["proxg"].calls
        ok = len(pc) == 1
        obs.append(("ADMM:minL_v-calls-proxg-once", [], z3.BoolVal(ok)))
        if ok:
            obs.append(("ADMM:v==prox_{g/rho}(Gx+u)", [], z3.And(core._lift(pc[0][0]) * core._lift(rho) == 1, _same(pc[0][1], Gx + us),
                                                                 _same(v, sp.base("proxg1", 2 if G else 0)))))
    else:
        obs.append(("ADMM:v==Gx+u", [], _same(v, Gx + us)))
    # multiplier update performed by ADMM._update: u += A(x) + B(v) - c  with A = G (or I), B = -I, c = 0
    xt, vt = sp.base("xt", 0), sp.base("vt", 2 if G else 0)
    got = Aarg.apply(xt) + Barg.apply(vt) - (carg if not isinstance(carg, int) else xt * 0 if False else (vt * 0))
    obs.append(("ADMM:multiplier-residual==Gx-v", [], _same(got, (G.apply(xt) if G else xt) - vt)))
    obs += [("ADMM:after-minL_v:" + n, h, g) for n, h, g in _frames(st)]
    return obs


def probes(tier, seed):
    res = native("probe.py", dict(prop="C14", tier=tier, seed=seed), timeout=2400)
    if isinstance(res, dict) and res.get("error"):
        return [dict(name="native-probe", error=res["error"], cases=0)]
    return res


def replay_request(res):
    inst = res["meta"].get("instance", "")
    kv = dict(p.split("=", 1) for p in inst.split(",") if "=" in p)
    solver = kv.get("solver")
    solver = None if solver == "None" else solver
    g = "l1" if kv.get("proxg") == "1" else None
    G = ("dense" if kv.get("G") == "1" else None)
    alias = kv.get("A.H-returns-its-argument") == "1"
    if G and not g:
        g = None
    return dict(fn="app.lls", args=dict(solver=solver, g=g, G=G if g else None, lam=0.3 if kv.get("lamda>0") == "1" else 0.0, z=kv.get("z") == "1",
                                        x0=kv.get("x") == "1", A="identity" if alias else None, seed=0))


def jobs(tier):
    M = "contracts.C14"
    js = []
    for solver in (None, "ConjugateGradient", "GradientMethod", "PrimalDualHybridGradient", "ADMM", "Bogus"):
        for proxg, G, lam, z, x in itertools.product((0, 1), repeat=5):
            if z and not lam:
                continue
            extras = [()]
            eff = solver or ("ConjugateGradient" if not proxg else ("GradientMethod" if not G else "PrimalDualHybridGradient"))
            if eff == "ConjugateGradient":
                extras = [(), ("P",)]
            elif eff == "GradientMethod":
                extras = [(), ("alpha",)]
            elif eff == "PrimalDualHybridGradient":
                extras = [(), ("tau",), ("sigma",), ("tau", "sigma")]
            elif eff == "ADMM":
                extras = [(), ("P",), ("rho",)]           # a user-supplied penalty parameter (default 1 hides 1/rho vs rho)
            if solver == "Bogus" and (proxg or G or lam or x):
                continue
            for ex in extras:
                for alias in ((0, 1) if not G or True else (0,)):
                    if alias and eff == "PrimalDualHybridGradient" and G:
                        continue
                    js.append(Job(M, "job_setup", solver=solver, proxg=proxg, G=G, lam=lam, z=z, x=x, extra=ex, alias=alias))
    return js
