"""C05 - fft/ifft are the centred unitary DFT along the requested axes and mutually inverse.
The real sigpy.fourier.fft/ifft/_fftc/_ifftc run against the numpy.fft contracts of pyvc/snp.py and the resize contract (C09);
the result is compared coefficient-wise with the explicit DFT-matrix definition  W(n, (j-c)(k-c)),  c = n//2 (centred) or 0."""
import itertools
import z3
from .common import *  # noqa: F401,F403
from . import specs
from pyvc.snp import SArr, LF, C, Term, Binder, lf_equal_goals

FOURIER = "sigpy/fourier.py"
UTIL = "sigpy/util.py"
ASSUMPTIONS = [
    "numpy.fft.fftn/ifftn compute the DFT  sum_j a[j] exp(-+2 pi i jk/n)  per listed axis with scale 1/sqrt(n) (norm='ortho'), 1 resp. 1/n (norm=None); "
    "fftshift: out[k]=in[(k-n//2) mod n]; ifftshift: out[k]=in[(k+n//2) mod n] (assumed contracts, probed natively)",
    "exp(-2 pi i m/n) depends on m mod n only (periodicity of the twiddle factor)",
    "the orthonormal DFT is unitary (assumed): ifft(fft(x)) = x and norm preservation then follow from the proved kernel identity "
    "ifft-kernel = conj(fft-kernel)^T; rounding error of the FFT is not bounded",
    "numpy >= 2.0: fftn/ifftn keep the width of a complex input (complex64 stays complex64); the dtype postcondition relies on it (probed natively)",
    "util.resize enters through its contract (C09)",
]
TRUSTED = ["linear-form domain, rotation rule (inverse of a cyclic shift) of pyvc/snp.py"]
BOUNDS = {"rank": "1..2 quick (3 thorough)", "axes": "all subsets incl. negative"}
NOT_DECIDED = ["uncentred transform with an output shape (numpy's s= pads at the end): not part of the statement", "floating-point error of the FFT"]
TIMEOUT_MS = {"quick": 30000, "thorough": 120000}


def functions():
    return record(FOURIER, "fft", "ifft", "_fftc", "_ifftc") + record(UTIL, "_normalize_axes")


def _ns(real_resize=False):
    """the whole real sigpy/fourier.py (helpers a change may add included); util.resize is its contract (C09), or - for the
    end-to-end variants - the real util.resize"""
    util_ns = base_ns()
    src.load_module(UTIL, util_ns)
    if not real_resize:
        util_ns.update(resize=specs.spec_resize)
    util = Mod(util_ns, UTIL)
    ns = base_ns(util=util, interp=None, ceil=core.sym_ceil)
    src.load_module(FOURIER, ns)
    return Mod(ns, FOURIER)


def spec_dft(x, oshape, axes, center, norm, inverse):
    """the explicit DFT-matrix definition from the property statement"""
    xr = specs.spec_resize(x, oshape) if oshape is not None else x
    nd = xr.ndim
    ax = list(range(nd)) if axes is None else sorted(set(a % nd for a in axes))
    shape = xr.shape
    snap = xr._snapshot()
    scale = 1
    for d in ax:
        if norm == "ortho":
            scale = scale / core.sym_sqrt(S(shape[d]))
        elif inverse:
            scale = scale / S(shape[d])
    sc = C.of(scale)

    def el(k):
        c = core.cur()
        idx = list(k)
        binders, w = [], sc
        saved = list(c.binders)
        try:
            for d in ax:
                j = core.fresh_int("sj")
                b = Binder(j, 0, shape[d])
                binders.append(b)
                c.binders.append(b)
                idx[d] = j
                ctr = (S(shape[d]) // 2) if center else 0
                w = w * snp.twiddle(shape[d], (Sym(j) - ctr) * (Sym(k[d]) - ctr), inverse)
            v = snap(tuple(idx))
            defs = [x_ for x_ in c.binders if x_ not in saved and x_ not in binders]
            allb = binders + defs
        finally:
            c.binders[:] = saved
        return LF(snp.C0, [Term(tuple(allb) + t.binders, tuple(b.range_cond() for b in allb) + t.guard, t.coef * w, t.atom, t.idx, t.conj) for t in v.terms])
    return SArr(shape, el, snp.CDT)


def job_dft(fn, rank, axes, center, norm, with_oshape, in_dtype, timeout_ms, real_resize=False):
    rec = record(FOURIER, fn)[0]
    F = _ns(real_resize)
    inverse = fn == "ifft"

    def mk():
        n = ints("n", rank)
        m = ints("m", rank) if with_oshape else None
        return n, m

    def run():
        n, m = mk()
        for e in n + (m or []):
            core.assume(e >= 1)
        x = SArr.input("x", n, dtype=snp.as_dtype(in_dtype))
        return getattr(F, fn)(x, oshape=m, axes=None if axes is None else list(axes), center=center, norm=norm)
    results = explore(run, max_paths=64)
    inst = "rank%d,axes=%s,center=%s,norm=%s,oshape=%s,dtype=%s%s" % (rank, axes, center, norm, with_oshape, in_dtype, ",real-resize" if real_resize else "")

    def post(r):
        if r.kind != "return":
            return [("no-exception(%s)" % type(r.value).__name__, [], z3.BoolVal(False))]
        n, m = mk()
        out = r.value
        x = SArr.input("x", n)
        want = spec_dft(x, m, axes, center, norm, inverse)
        want_dt = snp.as_dtype(in_dtype) if in_dtype.startswith("complex") else snp.as_dtype("complex64")
        obs = [("dtype:complex-input-keeps-its-precision(real->complex64)", [], z3.BoolVal(out.dtype == want_dt))]
        if len(out.shape) != len(want.shape):
            return obs + [("rank", [], z3.BoolVal(False))]
        obs.append(("shape", [], z3.And(*[core._lift(a) == core._lift(b) for a, b in zip(out.shape, want.shape)])))
        k = [z3.Int("k%d" % d) for d in range(rank)]
        got_e, want_e = out.elem(tuple(k)), want.elem(tuple(k))
        # hint: the congruence behind the centred transform, with its explicit witness (DESIGN 8/C05):
        #   ((j-h) mod n)((k-h) mod n) - (j-h)(k-h) = (qj qk n - qj (k-h) - qk (j-h)) n
        nd = rank
        ax = list(range(nd)) if axes is None else sorted(set(a % nd for a in axes))
        shp = want.shape
        t = [z3.Int("t!x%d" % d) for d in range(rank)]
        hyps = box(k, want.shape)
        lemh = []
        if center:
            for d in ax:
                nn = core._lift(shp[d])
                h = core._lift(S(shp[d]) // 2)
                # index of x[t] inside the (centre-resized) transform input: tj = t - (n//2 - m//2)
                tj = t[d] if m is None else z3.simplify(t[d] - (core._lift(S(n[d]) // 2) - core._lift(S(m[d]) // 2)))
                qj, rj = core._divmod_global(z3.simplify(tj - h), nn)
                qk, rk = core._divmod_global(z3.simplify(k[d] - h), nn)
                D = qj * qk * nn - qj * (k[d] - h) - qk * (tj - h)
                lobs, concl = congruence_lemmas("axis%d" % d, rk * rj, (k[d] - h) * (tj - h), nn, D,
                                                r.ctx.hyps() + hyps)
                obs += lobs
                lemh.append(concl)
        for sfx, g in lf_equal_goals(got_e, want_e):
            obs.append(("dft-matrix-definition[%s]" % sfx, hyps + lemh, g))
        return obs
    obs, covers = path_obligations("C05/%s/%s" % (fn, inst), results, post, instance=inst, fn_record=rec)
    return check_obligations(obs, timeout_ms) + covers


def probes(tier, seed):
    res = native("probe.py", dict(prop="C05", tier=tier, seed=seed), timeout=1500)
    if isinstance(res, dict) and res.get("error"):
        return [dict(name="native-probe", error=res["error"], cases=0)]
    return res


def replay_request(res):
    import ast as _ast
    j = res["job"]
    seg = j[j.index("(") + 1:-1]
    parts, depth, cur_ = [], 0, ""
    for ch in seg:
        depth += ch in "(["
        depth -= ch in ")]"
        if ch == "," and depth == 0:
            parts.append(cur_); cur_ = ""
        else:
            cur_ += ch
    parts.append(cur_)
    kw = {}
    for p_ in parts:
        if "=" in p_:
            a_, b_ = p_.split("=", 1)
            try:
                kw[a_] = _ast.literal_eval(b_)
            except Exception:
                kw[a_] = b_
    m = res.get("model") or {}
    rank = kw.get("rank", 1)
    shape = [max(1, min(7, model_int(m, "n%d" % d, 3 + d))) for d in range(rank)]
    osh = [max(1, min(7, model_int(m, "m%d" % d, 4))) for d in range(rank)] if kw.get("with_oshape") else None
    cases = [dict(fn="fourier.fft", args=dict(shape=sh, oshape=osh, axes=kw.get("axes"), center=kw.get("center", True), norm=kw.get("norm"),
                                              inverse=kw.get("fn") == "ifft", dtype=kw.get("in_dtype", "complex128")))
             for sh in (shape, [5] * rank, [4] * rank, [3, 2][:rank] if rank <= 2 else shape)]
    return dict(fn="multi", args=dict(cases=cases))


def jobs(tier):
    M = "contracts.C05"
    js = []
    for fn in ("fft", "ifft"):
        for rank in ((1, 2) if tier == "quick" else (1, 2, 3)):
            axsets = [None, (0,), (-1,)] if rank == 1 else [None, (0,), (-1,), (-2, -1), (1, 0)]
            for axes in axsets:
                for center in (True, False):
                    for norm in ("ortho", None):
                        if rank == 2 and norm is None and axes not in (None, (-1,)):
                            continue
                        js.append(Job(M, "job_dft", fn=fn, rank=rank, axes=axes, center=center, norm=norm, with_oshape=False, in_dtype="complex128"))
            js.append(Job(M, "job_dft", fn=fn, rank=rank, axes=None, center=True, norm="ortho", with_oshape=True, in_dtype="complex64"))
            if rank == 1:
                # the normalisation of the unnormalised transforms must use the OUTPUT lengths when an output shape is given
                js.append(Job(M, "job_dft", fn=fn, rank=rank, axes=None, center=True, norm=None, with_oshape=True, in_dtype="complex128"))
            js.append(Job(M, "job_dft", fn=fn, rank=rank, axes=(-1,), center=True, norm="ortho", with_oshape=False, in_dtype="float64"))
            js.append(Job(M, "job_dft", fn=fn, rank=rank, axes=(-1,), center=False, norm="ortho", with_oshape=False, in_dtype="complex64"))
    return js
