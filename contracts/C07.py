"""C07 - interpolate/gridding implement the documented kernel sums.
(a) loop-nest summarisation of the real numba kernels _interpolate1..3/_gridding1..3 and of the real wrappers
    (batch flattening, scalar->per-axis parameters, kernel/ndim dispatch) against the documented windowed sum;
(b) the kernel functions _spline_kernel / _kaiser_bessel_kernel against the B-spline definition / the Abramowitz-Stegun
    9.8.1-9.8.2 polynomial tables."""
import z3
from .common import *  # noqa: F401,F403
from pyvc.snp import SArr, LF, C, Term, Binder, comprehension_goals

INTERP = "sigpy/interp.py"
UTIL = "sigpy/util.py"
ASSUMPTIONS = [
    "numba nopython semantics equal Python's on these loop nests (range over ceil/floor results, floored % of negative ints) (A-numba)",
    "loop-nest summarisation rule (DESIGN 4.2)", "kernel weights enter the loop-nest obligations as an abstract function K(x, param); "
    "its definition is checked separately", "np.ceil/np.floor by their defining inequalities; width > 0",
    "Abramowitz-Stegun 9.8.1/9.8.2 approximate the modified Bessel function I0 (cited): the code is proved to be these polynomials",
]
TRUSTED = ["summation matching of pyvc/snp.py (comprehension_goals)"]
BOUNDS = {"ndim": "1..3", "batch axes": "0..1", "points axes": "1"}
NOT_DECIDED = []
TIMEOUT_MS = {"quick": 30000, "thorough": 120000}


def functions():
    return record(INTERP, "interpolate", "gridding", "_spline_kernel", "_kaiser_bessel_kernel", "_get_interpolate", "_get_gridding")


def Kfun(kernel):
    f = z3.Function("K<%s>" % kernel, z3.RealSort(), z3.RealSort(), z3.RealSort())
    return lambda x, p: Sym(f(core._to_real(core._lift(x)), core._to_real(core._lift(p))))


def _ns(abstract_kernels=True):
    util_ns = base_ns()
    src.load_module(UTIL, util_ns)
    util = Mod(util_ns, UTIL)
    ns = base_ns(util=util, nb=None)
    src.load_module(INTERP, ns, transforms=(src.loop_rewrite,))
    if abstract_kernels:
        ns["_spline_kernel"] = Kfun("spline")
        ns["_kaiser_bessel_kernel"] = Kfun("kaiser_bessel")
        ns["_interpolate"] = {k: ns["_get_interpolate"](k) for k in ("spline", "kaiser_bessel")}
        ns["_gridding"] = {k: ns["_get_gridding"](k) for k in ("spline", "kaiser_bessel")}
    return Mod(ns, INTERP)


def _syms(D, nbatch, scalar_params):
    g = ints("g", D)
    bt = ints("bt", nbatch)
    npts = ints("p", 1)
    if scalar_params:
        width, param = Sym(z3.Real("width")), Sym(z3.Real("param"))
    else:
        width = [Sym(z3.Real("width%d" % d)) for d in range(D)]
        param = [Sym(z3.Real("param%d" % d)) for d in range(D)]
    return g, bt, npts, width, param


def _assume(g, bt, npts, width):
    for e in g + bt + npts:
        core.assume(e >= 1)
    for w in (width if isinstance(width, list) else [width]):
        core.assume(w > 0)


def _window(kernel, D, g, coord, pidx, width, param, scalar_params):
    """bound variables, guards and weight of the documented window sum at point pidx"""
    K = Kfun(kernel)
    binders, guards, idx, w = [], [], [], None
    c = core.cur()
    saved = list(c.binders)
    try:
        for d in range(D):
            cd = coord.elem(tuple(pidx) + (z3.IntVal(d),)).value().re
            Wd = (width if scalar_params else width[d]).t
            pd = (param if scalar_params else param[d]).t
            v = core.fresh_int("g")
            b = Binder(v, None, None)
            binders.append(b)
            c.binders.append(b)
            guards += [z3.ToReal(v) - cd <= Wd / 2, cd - z3.ToReal(v) <= Wd / 2]
            wd = K(Sym((z3.ToReal(v) - cd) / (Wd / 2)), Sym(pd))
            w = wd if w is None else w * wd
            idx.append(core._lift(core.sym_mod(Sym(v), g[d])))
        defs = [x_ for x_ in c.binders if x_ not in saved and x_ not in binders]
    finally:
        c.binders[:] = saved
    return binders, defs, guards, idx, w


def job_interp(which, kernel, D, nbatch, scalar_params, timeout_ms):
    rec = record(INTERP, which)[0]
    M = _ns()

    def mk():
        g, bt, npts, width, param = _syms(D, nbatch, scalar_params)
        coord = SArr.input("coord", npts + [D], valued="real", dtype=snp.FDT)
        return g, bt, npts, width, param, coord

    def run():
        g, bt, npts, width, param, coord = mk()
        _assume(g, bt, npts, width)
        if which == "interpolate":
            return M.interpolate(SArr.input("x", bt + g), coord, kernel=kernel, width=width, param=param)
        return M.gridding(SArr.input("x", bt + npts), coord, bt + g, kernel=kernel, width=width, param=param)
    results = explore(run, max_paths=64)
    inst = "%s,ndim=%d,batch_axes=%d,%s-params" % (kernel, D, nbatch, "scalar" if scalar_params else "per-axis")

    def post(r):
        if r.kind != "return":
            return [("no-exception(%s)" % type(r.value).__name__, [], z3.BoolVal(False))]
        g, bt, npts, width, param, coord = mk()
        out = r.value
        oshape = (bt + npts) if which == "interpolate" else (bt + g)
        if len(out.shape) != len(oshape):
            return [("rank", [], z3.BoolVal(False))]
        obs = [("shape", [], z3.And(*[core._lift(a) == core._lift(b) for a, b in zip(out.shape, oshape)]))]
        k = [z3.Int("k%d" % d) for d in range(len(oshape))]
        kb = k[:nbatch]
        x = SArr.input("x", (bt + g) if which == "interpolate" else (bt + npts))
        if which == "interpolate":
            pidx = k[nbatch:]
            binders, defs, guards, idx, w = _window(kernel, D, g, coord, pidx, width, param, scalar_params)
            allb = binders + defs
            v = x.elem(tuple(kb) + tuple(idx))
            want = LF(snp.C0, [Term(tuple(allb) + t.binders, tuple(guards) + tuple(b.range_cond() for b in defs) + t.guard, t.coef * C(w), t.atom, t.idx, t.conj) for t in v.terms])
        else:
            # gridding: out[b, i] = sum over points p and window integers g with g mod n = i of K(...) y[b, p]
            pv = core.fresh_int("pt")
            pb = Binder(pv, 0, npts[0])
            binders, defs, guards, idx, w = _window(kernel, D, g, coord, [pv], width, param, scalar_params)
            allb = [pb] + binders + defs
            gi = k[nbatch:]
            guards = [pb.range_cond()] + guards + [i == kk for i, kk in zip(idx, gi)]
            v = x.elem(tuple(kb) + (pv,))
            want = LF(snp.C0, [Term(tuple(allb) + t.binders, tuple(guards) + tuple(b.range_cond() for b in defs) + t.guard, t.coef * C(w), t.atom, t.idx, t.conj) for t in v.terms])
        for sfx, hy, goal in comprehension_goals(out.elem(tuple(k)), want):
            obs.append(("documented-kernel-sum[%s]" % sfx, box(k, oshape) + hy, goal))
        return obs
    obs, covers = path_obligations("C07/%s/%s" % (which, inst), results, post, instance=inst, fn_record=rec)
    return check_obligations(obs, timeout_ms) + covers


# ------------------------------------------------------------------ kernel functions
def job_spline(order, timeout_ms):
    rec = record(INTERP, "_spline_kernel")[0]
    M = _ns(abstract_kernels=False)

    def run():
        x = Sym(z3.Real("x"))
        return M._spline_kernel(x, order)
    results = explore(run)

    def post(r):
        if r.kind != "return":
            return [("no-exception", [], z3.BoolVal(False))]
        x = z3.Real("x")
        ax = z3.If(x >= 0, x, -x)
        v = core._to_real(core._lift(r.value)) if r.value is not None else None
        if v is None:
            return [("returns-a-value", [], z3.BoolVal(False))]
        # B-spline of the given order scaled to the support [-1, 1]:  beta_n((n+1)/2 * x)
        if order == 0:
            want = z3.If(ax <= 1, z3.RealVal(1), z3.RealVal(0))
        elif order == 1:
            want = z3.If(ax <= 1, 1 - ax, z3.RealVal(0))
        else:
            t = 3 * ax / 2
            want = z3.If(ax > 1, z3.RealVal(0), z3.If(t <= z3.RealVal(1) / 2, z3.RealVal(3) / 4 - t * t, (z3.RealVal(3) / 2 - t) * (z3.RealVal(3) / 2 - t) / 2))
        return [("B-spline-of-order-%d-on-[-1,1]" % order, [], v == want)]
    obs, covers = path_obligations("C07/_spline_kernel/order=%d" % order, results, post, instance="order=%d" % order, fn_record=rec)
    return check_obligations(obs, timeout_ms) + covers


AS_981 = [1, 3.5156229, 3.0899424, 1.2067492, 0.2659732, 0.0360768, 0.0045813]
AS_982 = [0.39894228, 0.01328592, 0.00225319, -0.00157565, 0.00916281, -0.02057706, 0.02635537, -0.01647633, 0.00392377]


def job_kb(timeout_ms):
    rec = record(INTERP, "_kaiser_bessel_kernel")[0]
    M = _ns(abstract_kernels=False)
    E = z3.Function("exp", z3.RealSort(), z3.RealSort())
    M._ns["np"] = type("NPX", (), {"exp": staticmethod(lambda v: Sym(E(core._to_real(core._lift(v))))), "__getattr__": lambda s_, k_: getattr(snp.NP, k_)})()

    def run():
        x, beta = Sym(z3.Real("x")), Sym(z3.Real("beta"))
        core.assume(beta > 0)
        return M._kaiser_bessel_kernel(x, beta)
    results = explore(run)

    def post(r):
        if r.kind != "return":
            return [("no-exception", [], z3.BoolVal(False))]
        x, beta = Sym(z3.Real("x")), Sym(z3.Real("beta"))
        v = core._to_real(core._lift(r.value))
        outside = (abs(x) > 1).t
        if core._check(r.ctx.hyps() + [z3.Not(outside)], 2000) == z3.unsat:
            return [("zero-outside-[-1,1]", [], v == 0)]
        with core.spec_side():
            return [("inside-the-support", [], z3.Not(outside))] + _kb_inside(x, beta, v, E)
    obs, covers = path_obligations("C07/_kaiser_bessel_kernel", results, post, instance="kb", fn_record=rec)
    return check_obligations(obs, timeout_ms) + covers


def _kb_inside(x, beta, v, E):
    """inside the support the argument of I0 is u = beta*sqrt(1-x^2) (the sqrt witnesses are the memoised ones of the path)"""
    u = beta * core.sym_sqrt(1 - x * x)
    t = u / Sym(z3.RealVal("3.75"))

    def pw(b_, n):
        r_ = 1
        for _ in range(n):
            r_ = r_ * b_
        return r_
    small = 0
    for i, c in enumerate(AS_981):
        small = small + Sym(z3.RealVal(repr(c))) * pw(t, 2 * i)
    ti = 1 / t
    poly = 0
    for i, c in enumerate(AS_982):
        poly = poly + Sym(z3.RealVal(repr(c))) * pw(ti, i)
    large = (1 / core.sym_sqrt(u)) * Sym(E(core._to_real(u.t))) * poly
    below = (u < Sym(z3.RealVal("3.75"))).t
    return [("inside:A&S-9.8.1-polynomial-below-3.75", [below], v == core._to_real(core._lift(small))),
            ("inside:A&S-9.8.2-asymptotic-form-from-3.75", [z3.Not(below)], v == core._to_real(core._lift(large)))]


def probes(tier, seed):
    res = native("probe.py", dict(prop="C07", tier=tier, seed=seed), timeout=1500)
    if isinstance(res, dict) and res.get("error"):
        return [dict(name="native-probe", error=res["error"], cases=0)]
    return res


def replay_request(res):
    n = res["name"]
    if "_spline_kernel" in n or "_kaiser_bessel_kernel" in n:
        kern = "spline" if "_spline" in n else "kaiser_bessel"
        cases = [dict(fn="interp.check", args=dict(grid=[6], kernel=kern, width=w, param=p, npts=6, seed=s_))
                 for w in (2.0, 3.0, 4.0) for p in ((0, 1, 2) if kern == "spline" else (1.0, 2.34, 5.0, 9.14)) for s_ in (0, 1)]
        return dict(fn="multi", args=dict(cases=cases))
    inst = res["meta"].get("instance", "")
    kern = inst.split(",")[0]
    D = int(inst.split("ndim=")[1].split(",")[0])
    nb = int(inst.split("batch_axes=")[1].split(",")[0])
    per = "per-axis" in inst
    grid = [5, 4, 3][:D]
    cases = []
    for special in (None, "half-integers", "integers", "duplicates"):
        for p in ((1, 2) if kern == "spline" else (2.34, 9.14)):
            cases.append(dict(fn="interp.check", args=dict(grid=grid, batch=[2] * nb, kernel=kern, npts=4, special=special,
                                                           width=([2.0, 3.5, 1.5][:D] if per else 2.5), param=([p] * D if per else p), seed=0)))
    return dict(fn="multi", args=dict(cases=cases))


def jobs(tier):
    M = "contracts.C07"
    js = [Job(M, "job_kb")] + [Job(M, "job_spline", order=o) for o in (0, 1, 2)]
    for which in ("interpolate", "gridding"):
        for D in (1, 2, 3):
            for kernel in ("spline", "kaiser_bessel"):
                for nbatch in (0, 1):
                    for sp_ in (True, False):
                        if D == 3 and (kernel == "spline" or nbatch == 0) and tier == "quick":
                            continue
                        js.append(Job(M, "job_interp", which=which, kernel=kernel, D=D, nbatch=nbatch, scalar_params=sp_))
    return js
