"""C06 - nufft: the exact algebraic form of nufft / nufft_adjoint (proved), exact adjointness with the same scaling (proved);
the approximation accuracy against the non-uniform DFT is a numerical-analysis bound (Beatty et al. 2005) that no contract
in reach decides: bounded native probe only, never counted as proved.

Proved on the real sigpy/fourier.py (nufft, nufft_adjoint, _apodize, _scale_coord, _get_oversamp_shape) executed on
symbolic image extents, symbolic oversampling / width, value-array coordinates, with callee contracts
  fft / ifft (norm=None, centred)  -> the unnormalised centred DFT kernel K and K^H / prod(extent)   (C05)
  util.resize                      -> spec_resize                                                   (C09)
  interp.interpolate / gridding    -> out[j] = sum_k prod_d W(width, param, n_d, c[j,d], k_d) in[k] and its transpose,
                                      W an uninterpreted real function of the coordinate VALUE       (C07)
  * nufft(x, c)[b, j] == width^-ndim sum_k prod_d W(width, beta, os_d, c[j,d]*os_d/N_d + os_d//2, k_d)
                         * DFT_os( pad( a(t) x[b,t] / sqrt(prod N) ) )[k]
    with os_d = ceil(oversamp N_d), beta = pi sqrt((width/oversamp (oversamp-1/2))^2 - 0.8), a_d(t) = s/sinh s,
    s = sqrt(beta^2 - (pi width (t - N_d//2)/os_d)^2)   - the mechanism of the property text, written independently;
  * the coefficient of x[t] in nufft(x)[j] is the complex conjugate of the coefficient of y[j] in nufft_adjoint(y)[t]
    (exact adjoint, same scaling), output shapes = batch + coord.shape[:-1] resp. oshape;
  * shifting a coordinate by N_d shifts the scaled coordinate by exactly the oversampled period os_d (periodicity then
    is the wrap-around of the interpolation contract, C07).
"""
import z3
from .common import *  # noqa: F401,F403
from . import linops, specs
from .linops import FourierC, adjoint_goals, param_array
from pyvc.snp import SArr, LF, C, Term, Binder, lf_equal_goals

FOURIER = "sigpy/fourier.py"
ASSUMPTIONS = ["callee contracts: centred DFT (C05), resize (C09), interpolate/gridding as a separable weight of the coordinate value (C07)",
               "sqrt / sinh / division inside the apodisation are treated as real functions on their domain of definition (numpy evaluates them in complex "
               "arithmetic; definedness obligations of the apodisation are not generated)",
               "oversamp >= 1, width > 0 symbolic reals; np.pi an uninterpreted positive real; extents >= 1",
               "accuracy bound (3 % / 0.3 %) is NOT proved: bounded native probe against the exact non-uniform DFT"]
TRUSTED = ["linear-form domain of pyvc/snp.py", "summation matcher (structural)"]
BOUNDS = {"image extents": ">= 2 symbolic (extent-1 axes only in the native probe)", "ndim": "1, 2 (3 thorough)", "batch axes": "0, 1", "points axes": "1 (2 in one variant)",
          "native probe": "shapes <= 33 (1-D), <= 12x9, <= 6x6x6; 40 points; oversamp in {1.25,1.5,2}; width in {3,4,5,6}"}
NOT_DECIDED = ["relative l2 error of nufft against the exact NUDFT (bounded probe only)", "estimate_shape (nufft_adjoint with oshape=None)", "floating point"]


def functions():
    return record(FOURIER, "nufft", "nufft_adjoint", "_apodize", "_scale_coord", "_get_oversamp_shape")


# ----------------------------------------------------------------------------- callee contracts
_W = z3.Function("interpW", z3.RealSort(), z3.RealSort(), z3.IntSort(), z3.RealSort(), z3.IntSort(), z3.RealSort())


def _weight(kernel, width, param, n, c, k):
    if kernel != "kaiser_bessel":
        return z3.Function("interpW<%s>" % kernel, z3.RealSort(), z3.RealSort(), z3.IntSort(), z3.RealSort(), z3.IntSort(), z3.RealSort())(
            core._to_real(core._lift(width)), core._to_real(core._lift(param)), core._lift(n), c, k)
    return _W(core._to_real(core._lift(width)), core._to_real(core._lift(param)), core._lift(n), c, k)


def _coord_val(csnap, j, d):
    v = csnap(tuple(j) + (z3.IntVal(d),)).value()
    return v.re


def _weighted(x, coord, grid, kernel, width, param, transposed):
    """forward: out[b, j] = sum_{k in grid} prod_d W(c[j,d], k_d) x[b, k];  transposed: out[b, k] = sum_j prod_d W(c[j,d], k_d) x[b, j]"""
    ndim = coord.shape[-1]
    pshape = tuple(coord.shape[:-1])
    grid = tuple(grid)
    n_in = len(pshape) if transposed else ndim
    nb = x.ndim - n_in
    if nb < 0:
        raise snp.SValueError("input has fewer axes than the transform")
    in_core = x.shape[nb:]
    want_in = pshape if transposed else grid
    if len(in_core) != len(want_in) or not all(bool(S(a) == S(b)) for a, b in zip(in_core, want_in)):
        raise snp.SValueError("interpolation: input core shape does not match coordinates / grid")
    out_core = grid if transposed else pshape
    xs, cs = x._snapshot(), coord._snapshot()

    def el(k):
        kb, kc = k[:nb], k[nb:]
        ts = [core.fresh_int("t") for _ in in_core]
        binders = [Binder(t, 0, n) for t, n in zip(ts, in_core)]
        j, g = (ts, kc) if transposed else (kc, ts)
        w = z3.RealVal(1)
        for d in range(ndim):
            w = w * _weight(kernel, width, param, grid[d], _coord_val(cs, j, d), g[d])
        v = xs(tuple(kb) + tuple(ts))
        if not v.const.is_zero():
            raise core.Unsupported("interpolation of a non-homogeneous value")
        return LF(snp.C0, [Term(tuple(binders) + t.binders, tuple(b.range_cond() for b in binders) + t.guard, t.coef * C(w), t.atom, t.idx, t.conj)
                            for t in v.terms])
    return SArr(tuple(x.shape[:nb]) + tuple(out_core), el, x.dtype)


class InterpV:
    @staticmethod
    def interpolate(input, coord, kernel="spline", width=2, param=1):
        ndim = coord.shape[-1]
        return _weighted(input, coord, input.shape[-ndim:], kernel, width, param, False)

    @staticmethod
    def gridding(input, coord, shape, kernel="spline", width=2, param=1):
        ndim = coord.shape[-1]
        shape = list(shape)
        out = _weighted(input, coord, shape[-ndim:], kernel, width, param, True)
        if len(out.shape) != len(shape) or not all(bool(S(a) == S(b)) for a, b in zip(out.shape, shape)):
            raise snp.SValueError("gridding: requested shape does not fit the input")
        return out


def _fft_unnorm(x, axes, inverse):
    y = FourierC._ft(x, axes, True, None, inverse)
    if inverse:
        ax = FourierC._axes(axes, x.ndim)
        y = y / snp.prod([x.shape[a] for a in ax])
    return y


def load_fourier():
    util_ns = base_ns()
    src.load_module(linops.UTIL, util_ns)
    util_ns.update(resize=specs.spec_resize)
    util = Mod(util_ns, linops.UTIL)
    import math
    ns = base_ns(util=util, interp=InterpV, ceil=core.sym_ceil)
    src.load_module(FOURIER, ns)         # the whole module (helpers a change adds are executed); fft / ifft are replaced by their contracts below

    def fft(input, oshape=None, axes=None, center=True, norm="ortho"):
        if oshape is not None or not center or norm is not None:
            raise core.Unsupported("fft call other than the unnormalised centred transform inside nufft")
        return _fft_unnorm(input, axes, False)

    def ifft(input, oshape=None, axes=None, center=True, norm="ortho"):
        if oshape is not None or not center or norm is not None:
            raise core.Unsupported("ifft call other than the unnormalised centred transform inside nufft_adjoint")
        return _fft_unnorm(input, axes, True)
    ns["fft"], ns["ifft"] = fft, ifft
    return Mod(ns, FOURIER)


# ----------------------------------------------------------------------------- the mechanism, from the property text
def _beta(width, oversamp):
    if not isinstance(width, Sym) and not isinstance(oversamp, Sym):
        # concrete parameters: the same formula in the same (binary floating-point) arithmetic the interpreter uses
        return snp.NP.pi * (((width / oversamp) * (oversamp - 0.5)) ** 2 - 0.8) ** 0.5
    return snp.NP.pi * core.sym_sqrt(((width / oversamp) * (oversamp - Sym(z3.RealVal("1/2")))) ** 2 - Sym(z3.RealVal("4/5")))


def _os(oversamp, n):
    return core.sym_ceil(oversamp * n)


def _apod_array(N, osN, width, beta, ndim, lead):
    """a[t] = prod_d s_d/sinh(s_d) on the last ndim axes (broadcast over `lead` leading axes)"""
    def el(k):
        w = LF(snp.C1)
        for d in range(ndim):
            t = Sym(k[lead + d])
            s = core.sym_sqrt(beta ** 2 - (snp.NP.pi * width * (t - N[d] // 2) / osN[d]) ** 2)
            w = w * (LF(C(s)) / LF(C(snp._np_sinh(s))))      # array division of the engine: x * (1/y)
        return w
    return el


def spec_nufft(x, coord, oversamp, width):
    ndim = coord.shape[-1]
    lead = x.ndim - ndim
    N = list(x.shape[-ndim:])
    osN = [_os(oversamp, n) for n in N]
    beta = _beta(width, oversamp)
    a = SArr(tuple(x.shape), _apod_array(N, osN, width, beta, ndim, lead), snp.CDT)
    z = (x * a) / core.sym_sqrt(snp.prod(N))
    z = specs.spec_resize(z, list(x.shape[:lead]) + osN)
    z = _fft_unnorm(z, range(-ndim, 0), False)
    cs = coord._snapshot()
    npa = len(coord.shape) - 1

    def cel(k):
        d = k[npa]
        val = None
        for dd in range(ndim):
            v = cs(tuple(k[:npa]) + (z3.IntVal(dd),)).value().re
            e = v * (core._to_real(osN[dd].t) / core._to_real(core._lift(N[dd]))) + core._to_real((osN[dd] // 2).t)
            val = e if val is None else z3.If(d == dd, e, val)
        return LF(C(val))
    sc = SArr(tuple(coord.shape), cel, snp.FDT)
    out = _weighted(z, sc, osN, "kaiser_bessel", width, beta, False)
    return out / width ** ndim


# ----------------------------------------------------------------------------- jobs
def nvariants(tier):
    T = tier == "thorough"
    out = []
    for nd in ((1, 2, 3) if T else (1, 2)):
        for nb in (0, 1):
            out.append(dict(ndim=nd, nbatch=nb, pts_rank=1))
    out.append(dict(ndim=2, nbatch=0, pts_rank=2))
    out.append(dict(ndim=1, nbatch=0, pts_rank=1, defaults=True))
    return out


def _setup(v):
    nd = v["ndim"]
    N = linops._shape("n", nd)
    for e in N:
        core.assume(e >= 2)        # unit image extents: summation matcher limit -> native probe only (BOUNDS)
    bt = linops._shape("bt", v.get("nbatch", 0))
    P = linops._shape("p", v.get("pts_rank", 1))
    coord = SArr.input("coord", P + [nd], valued="real")
    if v.get("defaults"):
        return N, bt, P, coord, None, None
    os_, w = Sym(z3.Real("oversamp")), Sym(z3.Real("width"))
    core.assume(core.And(os_ >= 1, w > 0))
    core.assume(snp.NP.pi > 3)
    return N, bt, P, coord, os_, w


def job_nufft(v, timeout_ms):
    mod = load_fourier()
    rec = record(FOURIER, "nufft")[0]
    st = {}

    def run():
        N, bt, P, coord, os_, w = _setup(v)
        x = SArr.input("x", bt + N)
        y = SArr.input("y", bt + P)
        kw = {} if os_ is None else dict(oversamp=os_, width=w)
        with core.spec_side(), core.functional_witnesses():
            fwd = mod.nufft(x, coord, **kw)
            adj = mod.nufft_adjoint(y, coord, oshape=bt + N, **kw)
        st[core.cur()] = (N, bt, P, coord, os_, w, x, y, fwd, adj)
        return True
    results = explore(run, max_paths=40)
    inst = "nufft(%s)" % linops.vlabel(v)

    def post(r):
        if r.kind != "return":
            return [("C06:runs-without-error(%s)" % (r.value,), [], z3.BoolVal(False))]
        with core.spec_side(), core.functional_witnesses():
            return _post(r)

    def _post(r):
        N, bt, P, coord, os_, w, x, y, fwd, adj = st[r.ctx]
        osh, ish = bt + P, bt + N
        obs = [("C06:nufft-output-shape==batch+coord.shape[:-1]", [], z3.And(z3.BoolVal(len(fwd.shape) == len(osh)), *[core._lift(a) == core._lift(b) for a, b in zip(fwd.shape, osh)])),
               ("C06:nufft_adjoint-output-shape==oshape", [], z3.And(z3.BoolVal(len(adj.shape) == len(ish)), *[core._lift(a) == core._lift(b) for a, b in zip(adj.shape, ish)]))]
        if len(fwd.shape) != len(osh) or len(adj.shape) != len(ish):
            return obs
        k = [z3.Int("k%d" % d) for d in range(len(osh))]
        t = [z3.Int("t%d" % d) for d in range(len(ish))]
        fk, at = fwd.elem(tuple(k)), adj.elem(tuple(t))
        for sfx, g in adjoint_goals(fk, at, "x", "y", k, t):
            obs.append(("C06:nufft_adjoint-is-the-exact-adjoint[%s]" % sfx, box(k, osh) + box(t, ish), g))
        with core.spec_side():
            want = spec_nufft(x, coord, 1.25 if os_ is None else os_, 4 if w is None else w)
        for sfx, g in lf_equal_goals(fk, want.elem(tuple(k))):
            obs.append(("C06:nufft==apodise,scale,pad,DFT,KB-interpolate[%s]" % sfx, box(k, osh), g))
        return obs
    obs, covers = path_obligations("C06/%s" % inst, results, post, instance=inst, fn_record=rec)
    return check_obligations(obs, timeout_ms) + covers


def job_period(timeout_ms):
    """_scale_coord: c -> c*os/N + os//2, so c + N  ->  scaled(c) + os   (one oversampled grid period)"""
    mod = load_fourier()
    rec = record(FOURIER, "_scale_coord")[0]
    st = {}

    def run():
        N = linops._shape("n", 2)
        P = linops._shape("p", 1)
        os_ = Sym(z3.Real("oversamp"))
        core.assume(os_ >= 1)
        c1 = SArr.input("coord", P + [2], valued="real")
        m = ints("m", 2)
        c1s = c1._snapshot()

        def el(k):
            base = c1s(k).value().re
            return LF(C(z3.If(k[1] == 0, base + core._to_real((m[0] * N[0]).t), base + core._to_real((m[1] * N[1]).t))))
        c2 = SArr(tuple(P + [2]), el, snp.FDT)
        with core.spec_side():
            s1 = mod._scale_coord(c1, N, os_)
            s2 = mod._scale_coord(c2, N, os_)
            osN = mod._get_oversamp_shape(N, 2, os_)
        st[core.cur()] = (N, P, m, s1, s2, osN, os_)
        return True
    results = explore(run, max_paths=10)

    def post(r):
        if r.kind != "return":
            return [("C06:_scale_coord-runs(%s)" % (r.value,), [], z3.BoolVal(False))]
        N, P, m, s1, s2, osN, os_ = st[r.ctx]
        j = z3.Int("j")
        obs = []
        for d in range(2):
            a = s1.elem((j, z3.IntVal(d))).value().re
            b = s2.elem((j, z3.IntVal(d))).value().re
            obs.append(("C06:coordinate+m*N-maps-to-scaled+m*oversampled-period[axis %d]" % d, box([j], P), b == a + core._to_real((m[d] * osN[d]).t)))
            obs.append(("C06:oversampled-extent==ceil(oversamp*N)[axis %d]" % d, [],
                        z3.And(core._to_real(osN[d].t) >= (os_ * N[d]).t, core._to_real(osN[d].t) < (os_ * N[d]).t + 1)))
        return obs
    obs, covers = path_obligations("C06/_scale_coord", results, post, instance="_scale_coord", fn_record=rec)
    return check_obligations(obs, timeout_ms) + covers


def jobs(tier):
    return [Job(__name__, "job_nufft", v=v) for v in nvariants(tier)] + [Job(__name__, "job_period")]


def probes(tier, seed):
    res = native("probe.py", dict(prop="C06", tier=tier, seed=seed), timeout=2400)
    if isinstance(res, dict) and res.get("error"):
        return [dict(name="native-probe", error=res["error"], cases=0)]
    return res


def replay_request(res):
    cases = []
    for shape in ([8], [7], [6, 5], [4, 5, 6]):
        for kind in ("random", "out", "half"):
            cases.append(dict(fn="fourier.nufft", args=dict(shape=shape, kind=kind, oversamp=1.25, width=4, batch=1 if len(shape) == 2 else 0, seed=0)))
            cases.append(dict(fn="fourier.nufft", args=dict(shape=shape, kind=kind, oversamp=2.0, width=4, batch=0, seed=0)))
    return dict(fn="multi", args=dict(cases=cases))
