"""Symbolic specification functions (the contracts' postconditions as executable symbolic arrays).
Each is written from the property statement, not from the code.  They double as the *callee contracts*
used at call sites: a caller that calls e.g. util.resize is executed against spec_resize, not against
resize's body."""
import z3
from pyvc import core, snp
from pyvc.core import Sym, S, _lift
from pyvc.snp import SArr, LF, SymBool


def _expand(shape, r):
    return [1] * (r - len(shape)) + list(shape)


def spec_resize(x, oshape, ishift=None, oshift=None):
    """C09: zero-pad / crop with input index n//2 aligned to output index m//2 (or by the given shifts)."""
    oshape = list(oshape)
    r = max(x.ndim, len(oshape))
    ish, osh = _expand(x.shape, r), _expand(oshape, r)
    if ishift is None and oshift is None:
        off = [S(n) // 2 - S(m) // 2 for n, m in zip(ish, osh)]        # src = k + off
    else:
        if ishift is None:
            ishift = [core.sym_max(S(n) // 2 - S(m) // 2, 0) for n, m in zip(ish, osh)]
        if oshift is None:
            oshift = [core.sym_max(S(m) // 2 - S(n) // 2, 0) for n, m in zip(ish, osh)]
        off = [S(si) - S(so) for si, so in zip(ishift, oshift)]
    snap = x._snapshot()
    ri, ro = x.ndim, len(oshape)

    def el(k):
        kk = [z3.IntVal(0)] * (r - ro) + list(k)
        srci = [z3.simplify(kk[d] + _lift(off[d])) for d in range(r)]
        conds = [z3.And(srci[d] >= 0, srci[d] < _lift(ish[d])) for d in range(r)]
        if ishift is not None or oshift is not None:
            # explicit shifts: the copied window starts at the shifts
            conds += [kk[d] >= _lift(oshift[d]) for d in range(r)]
        return LF._ite(SymBool(z3.And(*conds)), snap(tuple(srci[r - ri:])), 0)
    return SArr(tuple(oshape), el, x.dtype)


def spec_flip(x, axes=None):
    n = x.ndim
    axes = list(range(n)) if axes is None else [a % n for a in axes]
    snap = x._snapshot()

    def el(k):
        return snap(tuple((_lift(x.shape[d]) - 1 - k[d]) if d in axes else k[d] for d in range(n)))
    return SArr(x.shape, el, x.dtype)


def spec_circshift(x, shifts, axes=None):
    n = x.ndim
    axes = list(range(n)) if axes is None else list(axes)
    snap = x._snapshot()
    tot = {}
    for a, s in zip(axes, shifts):
        a = a % n
        tot[a] = tot.get(a, 0) + s

    def el(k):
        kk = list(k)
        for a, s in tot.items():
            kk[a] = _lift(core.sym_mod(Sym(k[a]) - s, x.shape[a]))
        return snap(tuple(kk))
    return SArr(x.shape, el, x.dtype)


def ceil_div(a, b):
    return -((-S(a)) // b)


def spec_downsample(x, factors, shift=None):
    """out[k] = in[s + k f] on the leading len(factors) axes; length ceil((n - s)/f)"""
    nf = len(factors)
    shift = [0] * nf if shift is None else list(shift)
    shape = [ceil_div(S(n) - s, f) for n, s, f in zip(x.shape, shift, factors)] + list(x.shape[nf:])
    snap = x._snapshot()

    def el(k):
        return snap(tuple(z3.simplify(_lift(shift[d]) + k[d] * _lift(factors[d])) if d < nf else k[d] for d in range(x.ndim)))
    return SArr(tuple(shape), el, x.dtype)


def spec_upsample(x, oshape, factors, shift=None):
    """out[s + j f] = in[j], zero elsewhere"""
    nf = len(factors)
    shift = [0] * nf if shift is None else list(shift)
    snap = x._snapshot()

    def el(k):
        conds, src = [], []
        for d in range(len(oshape)):
            if d < nf:
                off = Sym(z3.simplify(k[d] - _lift(shift[d])))
                q, r = core._divmod(off, S(factors[d]))
                conds += [r == 0, q >= 0, q < _lift(x.shape[d])]
                src.append(q)
            else:
                src.append(k[d])
        return LF._ite(SymBool(z3.And(*conds)), snap(tuple(src)), 0)
    return SArr(tuple(oshape), el, x.dtype)


def num_blks(N, B, St):
    return [(S(n) - b + s) // s for n, b, s in zip(N, B, St)]


def spec_array_to_blocks(x, blk_shape, blk_strides):
    """out[batch.., n.., b..] = in[batch.., n*S + b], one block per stride multiple"""
    D = len(blk_shape)
    nb = num_blks(x.shape[-D:], blk_shape, blk_strides)
    batch = list(x.shape[:-D])
    nbt = len(batch)
    snap = x._snapshot()

    def el(k):
        kb, kn, kk = k[:nbt], k[nbt:nbt + D], k[nbt + D:]
        return snap(tuple(kb) + tuple(z3.simplify(kn[d] * _lift(blk_strides[d]) + kk[d]) for d in range(D)))
    return SArr(tuple(batch + nb + list(blk_shape)), el, x.dtype)


def spec_blocks_to_array(x, oshape, blk_shape, blk_strides):
    """out[batch.., i..] = sum over (n, b) with n*S + b = i of in[batch.., n.., b..]"""
    D = len(blk_shape)
    nbt = len(oshape) - D
    nb = x.shape[nbt:nbt + D]
    snap = x._snapshot()

    def el(k):
        kb, ki = k[:nbt], k[nbt:]
        binders, guards, ns, bs = [], [], [], []
        for d in range(D):
            n, b = core.fresh_int("n"), core.fresh_int("b")
            bn, bb = snp.Binder(n, 0, nb[d]), snp.Binder(b, 0, blk_shape[d])
            binders += [bn, bb]
            guards += [bn.range_cond(), bb.range_cond(), n * _lift(blk_strides[d]) + b == ki[d]]
            ns.append(n)
            bs.append(b)
        v = snap(tuple(kb) + tuple(ns) + tuple(bs))
        return LF(snp.C0, [snp.Term(tuple(binders) + t.binders, tuple(guards) + t.guard, t.coef, t.atom, t.idx, t.conj) for t in v.terms])
    return SArr(tuple(oshape), el, x.dtype)
