"""C17 - ESPIRiT maps: unit norm or exactly zero, first coil real non-negative, eigenvalues >= 0 (proved on the real
per-voxel normalisation / phase-reference / crop code); eigenvalues <= 1 and agreement with true maps are statements about
the sliding-window calibration operator (Uecker et al. 2014) and about convergence of the power iteration that no contract
in reach decides: bounded native probe only.

Under contract (real code, value arrays with symbolic voxel extents, concrete coil count):
  * EspiritCalib.__init__'s closure `normalize` (extracted mechanically from the constructor, see src.load_nested) and
    sigpy/alg.py:PowerMethod._update with norm_func=normalize: after EVERY update, at every voxel,
        max_eig >= 0,  max_eig^2 == sum_c |(A x)_c|^2,  and, where max_eig != 0, sum_c |x_c|^2 == 1, x * max_eig == A x;
  * EspiritCalib._output: at every voxel with first-coil value m_0 != 0
        out_0 is real and >= 0;  eig > crop  =>  out_c == m_c * conj(m_0)/|m_0| (so sum_c |out_c|^2 == sum_c |m_c|^2);
        eig <= crop  =>  out_c == 0 exactly;  the returned eigenvalue map is alg.max_eig (transposed);
  * static: the constructor wires PowerMethod(forward, self.mps, norm_func=normalize, ...) into App.__init__, `forward`
    returns AHA @ x, self.mps starts as ones (non-zero).
Composition (lemma, proved): unit norm after the last update + _output's postcondition  =>  unit norm or exactly zero.
"""
import ast
import z3
from .common import *  # noqa: F401,F403
from . import linops
from pyvc.snp import SArr, LF, C

MRI_APP = "sigpy/mri/app.py"
ALG = "sigpy/alg.py"
ASSUMPTIONS = ["at the voxel considered the power iterate A x is not the zero vector (max_eig != 0) and the first coil's value is not exactly 0: "
               "otherwise numpy produces 0/0 = NaN (all-zero k-space does; outside the property's quantifier of random / synthesised data)",
               "coil count concrete (2, 3); voxel grid 2-D / 3-D with symbolic extents",
               "the matrix product AHA @ x inside `forward` is an arbitrary array of the iterate's shape (the invariants proved do not depend on AHA)"]
TRUSTED = ["value-array domain of pyvc/snp.py (sqrt as an uninterpreted function with its defining axiom per argument)"]
BOUNDS = {"coils": "2, 3 (deductive); 2..8 (native probe)", "native probe": "2-D <= 16x16, 3-D <= 8x8x8, calib_width 5..16, kernel_width 2..6, thresh / crop varied, 30-100 power iterations"}
NOT_DECIDED = ["eigenvalues <= 1 (property of the sliding-window calibration operator; bounded probe with 1e-3 slack)",
               "agreement of the magnitudes with the true root-sum-of-squares-normalised maps (convergence of the power iteration; bounded probe)",
               "SVD / calibration-matrix construction (numpy.linalg.svd is outside /repo)"]


def functions():
    return record(MRI_APP, "EspiritCalib.__init__", "EspiritCalib._output") + record(ALG, "PowerMethod._update")


def _shape_rev(n, Cn):
    return list(reversed(n)) + [Cn, 1]


def _abs2(v):
    return v.re * v.re + v.im * v.im


def load():
    alg_ns = base_ns(util=None)
    src.load_module(ALG, alg_ns, only=["Alg", "PowerMethod"])
    alg = Mod(alg_ns, ALG)
    sp = Mod(dict(get_device=snp.BACKEND.get_device, alg=alg, app=Mod(dict(App=object), "sigpy.app"), cpu_device=snp.BACKEND.cpu_device,
                  Device=lambda d: d), "sigpy")
    ns = base_ns(sp=sp, xp=snp.NP)
    src.load_nested(MRI_APP, "EspiritCalib.__init__", ["normalize"], ns)
    src.load_module(MRI_APP, ns, only=["EspiritCalib"])
    return Mod(ns, MRI_APP), alg


def job_power(Cn, rank, timeout_ms):
    mod, alg = load()
    rec = record(ALG, "PowerMethod._update")[0]
    st = {}

    def run():
        with core.functional_witnesses():
            n = linops._shape("n", rank)
            shp = _shape_rev(n, Cn)
            x = SArr.input("x", shp, valued=True).copy()
            y = SArr.input("Ax", shp, valued=True)
            pm = object.__new__(alg.PowerMethod)
            pm.A = lambda v: y
            pm.x = x
            pm.norm_func = mod.normalize
            pm.max_eig = core.INF
            pm._update()
            st[core.cur()] = (n, shp, x, y, pm)
            return pm
    results = explore(run, max_paths=40)
    inst = "PowerMethod._update(norm_func=normalize,C=%d,rank=%d)" % (Cn, rank)

    def post(r):
        with core.functional_witnesses(), core.spec_side():
            return _post(r)

    def _post(r):
        if r.kind != "return":
            return [("C17:update-runs(%s)" % (r.value,), [], z3.BoolVal(False))]
        n, shp, x, y, pm = st[r.ctx]
        v = [z3.Int("v%d" % d) for d in range(rank)]
        bx = box(v, shp[:rank])
        e = pm.max_eig
        ok_shape = isinstance(e, SArr) and len(e.shape) == rank + 2
        obs = [("C17:max_eig-has-one-value-per-voxel", [], z3.And(z3.BoolVal(ok_shape), *([core._lift(a) == core._lift(b) for a, b in zip(e.shape, shp[:rank] + [1, 1])] if ok_shape else [])))]
        if not ok_shape:
            return obs
        ev = e.elem(tuple(v) + (z3.IntVal(0), z3.IntVal(0))).value()
        ys = [y.elem(tuple(v) + (z3.IntVal(c), z3.IntVal(0))).value() for c in range(Cn)]
        xs = [pm.x.elem(tuple(v) + (z3.IntVal(c), z3.IntVal(0))).value() for c in range(Cn)]
        tot = z3.Sum([_abs2(q) for q in ys])
        obs.append(("C17:max_eig-is-real-and>=0", bx, z3.And(ev.im == 0, ev.re >= 0)))
        obs.append(("C17:max_eig^2==sum_c|Ax_c|^2", bx, ev.re * ev.re == tot))
        obs.append(("C17:x-updated-in-place", [], z3.BoolVal(pm.x is x)))
        nz = [ev.re != 0]
        obs.append(("C17:unit-norm-after-update", bx + nz, z3.Sum([_abs2(q) for q in xs]) == 1))
        for c in range(Cn):
            obs.append(("C17:direction-kept[coil %d]" % c, bx + nz, z3.And(xs[c].re * ev.re == ys[c].re, xs[c].im * ev.re == ys[c].im)))
        return obs
    obs, covers = path_obligations("C17/%s" % inst, results, post, instance=inst, fn_record=rec)
    return check_obligations(obs, timeout_ms) + covers


class _AlgStub:
    pass


def job_output(Cn, rank, timeout_ms):
    mod, alg = load()
    rec = record(MRI_APP, "EspiritCalib._output")[0]
    st = {}

    def run():
        with core.functional_witnesses():
            n = linops._shape("n", rank)
            shp = _shape_rev(n, Cn)
            app = object.__new__(mod.EspiritCalib)
            app.device = snp.BACKEND.cpu_device
            app.mps = SArr.input("m", shp, valued=True).copy()
            a = _AlgStub()
            a.max_eig = SArr.input("eig", shp[:rank] + [1, 1], valued="nonneg")
            app.alg = a
            app.crop = Sym(z3.Real("crop"))
            app.output_eigenvalue = True
            m_in = SArr.input("m", shp, valued=True)
            out = app._output()
            st[core.cur()] = (n, shp, m_in, a.max_eig, app.crop)
            return out
    results = explore(run, max_paths=40)
    inst = "EspiritCalib._output(C=%d,rank=%d)" % (Cn, rank)

    def post(r):
        # definedness obligations of the code (division by |first coil|) are kept: they must follow from the precondition
        with core.functional_witnesses():
            return _post(r)

    def _post(r):
        if r.kind != "return":
            return [("C17:_output-runs(%s)" % (r.value,), [], z3.BoolVal(False))]
        n, shp, m_in, eig_in, crop = st[r.ctx]
        ok = isinstance(r.value, tuple) and len(r.value) == 2 and isinstance(r.value[0], SArr) and isinstance(r.value[1], SArr)
        obs = [("C17:returns-(maps,eigenvalues)", [], z3.BoolVal(bool(ok)))]
        if not ok:
            return obs
        mps, eig = r.value
        obs.append(("C17:maps-shape==[coils]+image-shape", [], z3.And(z3.BoolVal(len(mps.shape) == rank + 1), *[core._lift(a) == core._lift(b) for a, b in zip(mps.shape, [Cn] + n)])))
        # the property does not fix the eigenvalue map's shape; the code returns one value per voxel with a leading unit axis
        obs.append(("C17:one-eigenvalue-per-voxel(shape [1]+image-shape)", [], z3.And(z3.BoolVal(len(eig.shape) == rank + 1), *[core._lift(a) == core._lift(b) for a, b in zip(eig.shape, [1] + n)])))
        if len(mps.shape) != rank + 1 or len(eig.shape) != rank + 1:
            return obs
        v = [z3.Int("v%d" % d) for d in range(rank)]        # voxel index in image order
        vr = list(reversed(v))                               # index into the transposed internal arrays
        bx = box(v, n)
        m = [m_in.elem(tuple(vr) + (z3.IntVal(c), z3.IntVal(0))).value() for c in range(Cn)]
        e_in = eig_in.elem(tuple(vr) + (z3.IntVal(0), z3.IntVal(0))).value()
        e_out = eig.elem((z3.IntVal(0),) + tuple(v)).value()
        out = [mps.elem((z3.IntVal(c),) + tuple(v)).value() for c in range(Cn)]
        pre = [_abs2(m[0]) != 0]
        # the precondition at this voxel is a fact for the code's own definedness obligations generated below
        obs.append(("@fact", [], z3.And(*bx)))          # v is an arbitrary voxel of the grid
        obs.append(("@fact", [], pre[0]))
        obs.append(("C17:returned-eigenvalue==alg.max_eig", bx, z3.And(e_out.re == e_in.re, e_out.im == 0)))
        with core.spec_side():
            a0 = core.sym_sqrt(Sym(_abs2(m[0])))
        obs.append(("C17:first-coil-real-and>=0", bx + pre, z3.And(out[0].im == 0, out[0].re >= 0)))
        keep = e_in.re > crop.t
        for c in range(Cn):
            # out_c * |m_0| == m_c * conj(m_0) when kept
            pr = m[c] * m[0].conjugate()
            obs.append(("C17:kept-voxel:out==m*conj(m0)/|m0|[coil %d]" % c, bx + pre + [keep], z3.And(out[c].re * a0.t == pr.re, out[c].im * a0.t == pr.im)))
            obs.append(("C17:kept-voxel:magnitude-unchanged[coil %d]" % c, bx + pre + [keep], _abs2(out[c]) == _abs2(m[c])))
            obs.append(("C17:cropped-voxel:exactly-zero[coil %d]" % c, bx + pre + [z3.Not(keep)], z3.And(out[c].re == 0, out[c].im == 0)))
        # composition with the power-method postcondition
        unit = z3.Sum([_abs2(q) for q in m]) == 1
        tot_out = z3.Sum([_abs2(q) for q in out])
        # lemma use: the per-coil clauses above (each its own obligation) are hypotheses here, over opaque magnitudes
        O = [z3.Real("opaque!O%d" % c) for c in range(Cn)]
        M = [z3.Real("opaque!M%d" % c) for c in range(Cn)]
        zero = [z3.Bool("opaque!Z%d" % c) for c in range(Cn)]
        K = z3.Bool("opaque!keep")
        lem = [z3.Implies(K, O[c] == M[c]) for c in range(Cn)] + [z3.Implies(z3.Not(K), zero[c]) for c in range(Cn)] + [z3.Sum(M) == 1]
        obs.append(("C17:lemma:unit-norm-in=>unit-norm-or-exactly-zero-out(opaque)", lem, z3.Or(z3.Sum(O) == 1, z3.And(*zero))))
        return obs
    obs, covers = path_obligations("C17/%s" % inst, results, post, instance=inst, fn_record=rec)
    return check_obligations(obs, timeout_ms) + covers


def job_static(timeout_ms):
    """wiring of the constructor (AST obligations on the real source)"""
    s = src.Source.get(MRI_APP)
    rec = s.record("EspiritCalib.__init__")
    tree = ast.parse(s.text)
    init = None
    for n in ast.walk(tree):
        if isinstance(n, ast.ClassDef) and n.name == "EspiritCalib":
            for m in n.body:
                if isinstance(m, ast.FunctionDef) and m.name == "__init__":
                    init = m
    facts = dict(power=False, fwd=False, super_alg=False, ones=False, norm_axis=False)
    if init is not None:
        for n in ast.walk(init):
            if isinstance(n, ast.Call) and ast.unparse(n.func) == "sp.alg.PowerMethod":
                a = [ast.unparse(x) for x in n.args]
                kw = {k.arg: ast.unparse(k.value) for k in n.keywords}
                facts["power"] = a[:2] == ["forward", "self.mps"] and kw.get("norm_func") == "normalize" and kw.get("max_iter") == "max_iter"
            if isinstance(n, ast.FunctionDef) and n.name == "forward":
                rets = [ast.unparse(x.value) for x in ast.walk(n) if isinstance(x, ast.Return)]
                facts["fwd"] = rets == ["AHA @ x"]
            if isinstance(n, ast.Call) and ast.unparse(n.func) == "super().__init__":
                facts["super_alg"] = bool(n.args) and ast.unparse(n.args[0]) == "alg"
            if isinstance(n, ast.Assign) and ast.unparse(n.targets[0]) == "self.mps":
                facts["ones"] = ast.unparse(n.value).startswith("xp.ones(ksp.shape[::-1] + (1,)")
    names = dict(power="C17:PowerMethod(forward, self.mps, norm_func=normalize, max_iter=max_iter)", fwd="C17:forward-returns-AHA@x",
                 super_alg="C17:App.__init__-receives-the-power-method", ones="C17:initial-iterate-is-ones(ksp.shape[::-1]+(1,))")
    obs = [Obligation("C17/static/" + names[k], [], z3.BoolVal(bool(facts[k])),
                      dict(instance="EspiritCalib.__init__", function=rec["function"], file=rec["file"], lines=rec["lines"], sha256=rec["sha256"], goal=names[k], kind="static"))
           for k in names]
    return check_obligations(obs, timeout_ms)


def jobs(tier):
    js = [Job(__name__, "job_static")]
    for Cn in (2, 3):
        for rank in ((2, 3) if tier == "thorough" or Cn == 2 else (2,)):
            js.append(Job(__name__, "job_power", Cn=Cn, rank=rank))
            js.append(Job(__name__, "job_output", Cn=Cn, rank=rank))
    return js


def probes(tier, seed):
    res = native("probe.py", dict(prop="C17", tier=tier, seed=seed, per_case_timeout_s=120), timeout=3000)
    if isinstance(res, dict) and res.get("error"):
        return [dict(name="native-probe", error=res["error"], cases=0)]
    return res


def replay_request(res):
    cases = [dict(fn="mri.espirit", args=dict(kind=k, shape=sh, C=c, calib_width=cw, kernel_width=kw, seed=0))
             for k, sh, c, cw, kw in (("random", [12, 12], 4, 8, 3), ("smooth", [16, 16], 8, 16, 6), ("random", [6, 7, 5], 3, 5, 2), ("smooth", [12, 12], 2, 10, 4))]
    return dict(fn="multi", args=dict(cases=cases))
