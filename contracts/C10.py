"""C10 - orthogonal wavelet transform: perfect reconstruction, norm preservation, inverse == adjoint, advertised shape.

The transform itself is PyWavelets (compiled code outside /repo): it enters as an ASSUMED contract (class PywtC below),
written from the PyWavelets documentation for orthogonal wavelets with zero extension, and is only probed (bounded) on the
installed library.  What IS proved, on the real sigpy/wavelet.py (get_wavelet_shape, fwt, iwt) and the real linop.Wavelet /
InverseWavelet executed against that contract and the resize contract (C09), for symbolic extents:
  * the array fwt returns has exactly the shape get_wavelet_shape / Wavelet.oshape advertises (same wavelet, axes, level,
    mode and padded shape reach PyWavelets on both routes);
  * the padded extents handed to PyWavelets are even on every axis (precondition of its perfect-reconstruction contract);
  * iwt(fwt(x)) == x element by element: zero-pad to even, PyWavelets round trip, centre crop is the identity;
  * iwt is the adjoint of fwt (coefficientwise), hence with the round trip  ||fwt x|| = ||x||  (algebra lemma, proved).
"""
import z3
from .common import *  # noqa: F401,F403
from . import linops, specs
from .linops import kernel_apply, _key, adjoint_goals
from pyvc.snp import SArr, lf_equal_goals

WAVELET = "sigpy/wavelet.py"
ASSUMPTIONS = ["PyWavelets contract (class PywtC): for an orthogonal wavelet, mode='zero' and even extents along the transformed axes, "
               "coeffs_to_array(wavedecn(z)) is a real linear map K of z determined by (shape, wavelet, mode, axes, level); "
               "waverecn(array_to_coeffs(c, slices)) is its transpose K^T; and K^T K = I (perfect reconstruction). Probed (bounded) on the installed PyWavelets, never proved.",
               "util.resize acts as its contract spec_resize (proved under C09)",
               "the wavelet named is orthogonal (premise of the property); biorthogonal / discrete-Meyer families are outside it"]
TRUSTED = ["linear-form domain of pyvc/snp.py", "PyWavelets (compiled, outside /repo)"]
BOUNDS = {"rank": "<= 3 symbolic extents; axes subsets enumerated", "native probe": "every haar/db/sym/coif wavelet of the installed PyWavelets, shapes <= 3-D incl. odd and shorter than the filter"}
NOT_DECIDED = ["orthogonality / perfect reconstruction of PyWavelets itself (assumed contract; bounded probe only)", "floating-point round-off"]


def functions():
    return record(WAVELET, "get_wavelet_shape", "fwt", "iwt") + record(linops.LINOP, "Wavelet.__init__", "Wavelet._apply", "Wavelet._adjoint_linop",
                                                                       "InverseWavelet.__init__", "InverseWavelet._apply", "InverseWavelet._adjoint_linop")


# ----------------------------------------------------------------------------- assumed PyWavelets contract
def _ax(axes):
    return None if axes is None else tuple(axes)


class _Coeffs:
    def __init__(self, z, key, axes, arr=None, slices=None):
        self.z, self.key, self.axes, self.arr, self.slices = z, key, axes, arr, slices


class PywtC:
    @staticmethod
    def _wkey(shape, wavelet, mode, axes, level):
        return _key("pywt", list(shape), wavelet, mode, _ax(axes), level)

    @staticmethod
    def _oshape(key, ndim):
        osh = [Sym(z3.Int("w<%s>[%d]" % (key, d))) for d in range(ndim)]
        for o in osh:
            core.define(o.t >= 1)
        return osh

    @staticmethod
    def wavedecn(data, wavelet, mode="symmetric", level=None, axes=None):
        nd = data.ndim
        for a in (range(nd) if axes is None else [a % nd for a in axes]):
            core.side_obligation("pywt-perfect-reconstruction-needs-even-extent", (S(data.shape[a]) % 2 == 0).t if hasattr(S(data.shape[a]) % 2 == 0, "t")
                                 else core._lb(S(data.shape[a]) % 2 == 0))
        return _Coeffs(data, PywtC._wkey(data.shape, wavelet, mode, axes, level), _ax(axes))

    @staticmethod
    def dwtn_max_level(shape, wavelet, axes=None):
        """assumed contract: a non-negative integer determined by (shape, wavelet, axes)"""
        key = _key("maxlevel", wavelet, _ax(axes))
        f = z3.Function("pywt.%s" % key, *([z3.IntSort()] * len(shape) + [z3.IntSort()]))
        r = f(*[core._lift(S(e)) for e in shape])
        core.define(r >= 0)
        return Sym(r)

    @staticmethod
    def dwt_max_level(data_len, filter_len):
        f = z3.Function("pywt.dwt_max_level", z3.IntSort(), z3.IntSort(), z3.IntSort())
        r = f(core._lift(S(data_len)), core._lift(S(filter_len)))
        core.define(r >= 0)
        return Sym(r)

    @staticmethod
    def coeffs_to_array(coeffs, padding=0, axes=None):
        if _ax(axes) != coeffs.axes:
            raise snp.SValueError("coeffs_to_array: axes differ from the axes the coefficients were computed along")
        z = coeffs.z
        arr = kernel_apply(coeffs.key, z, PywtC._oshape(coeffs.key, z.ndim), z.ndim, real_kernel=True)
        arr._pywt = coeffs
        return arr, ("coeff_slices", coeffs.key)

    @staticmethod
    def array_to_coeffs(arr, coeff_slices, output_format="wavedecn"):
        if output_format != "wavedecn":
            raise core.Unsupported("array_to_coeffs output_format %r" % (output_format,))
        if not (isinstance(coeff_slices, tuple) and len(coeff_slices) == 2 and coeff_slices[0] == "coeff_slices"):
            raise snp.SValueError("array_to_coeffs: not a coefficient-slice structure")
        return _Coeffs(None, coeff_slices[1], None, arr=arr, slices=coeff_slices)

    @staticmethod
    def waverecn(coeffs, wavelet, mode="symmetric", axes=None):
        arr = coeffs.arr
        src = getattr(arr, "_pywt", None)
        # the structure (shape, wavelet, mode, axes, level) the slices were made for
        skey = coeffs.key
        # the key of THIS call: wavelet / mode / axes from the arguments, shape and level from the slice structure
        parts = skey.split("|")
        if mode != "zero":
            # transpose / isometry is only assumed for zero extension
            ckey = "not-the-transpose|" + _key(wavelet, mode, _ax(axes)) + "|" + skey
            transposed = False
        else:
            ckey = "|".join([parts[0], parts[1], _key(wavelet), _key(mode), _key(_ax(axes)), parts[5]]) if len(parts) == 6 else "?"
            transposed = True
        if src is not None and src.key == ckey and skey == ckey:
            return src.z.copy()           # perfect reconstruction of exactly the coefficients wavedecn produced
        zshape = _shape_from_key(skey)
        if zshape is None:
            raise core.Unsupported("cannot recover the data shape from the slice structure")
        if len(arr.shape) != len(zshape):
            raise snp.SValueError("waverecn: coefficient array rank")
        want = PywtC._oshape(skey, len(zshape))
        for a, b in zip(arr.shape, want):
            if not bool(S(a) == S(b)):
                raise snp.SValueError("waverecn: coefficient array does not have the shape of the slice structure")
        return kernel_apply(ckey, arr, zshape, arr.ndim, transposed=transposed, real_kernel=True)


_SHAPES = {}


def _shape_from_key(key):
    return _SHAPES.get(key)


_orig_wkey = PywtC._wkey


def _wkey_recording(shape, wavelet, mode, axes, level):
    k = _key("pywt", list(shape), wavelet, mode, _ax(axes), level)
    _SHAPES[k] = list(shape)
    return k


PywtC._wkey = staticmethod(_wkey_recording)


def load_wavelet():
    util_ns = base_ns()
    src.load_module(linops.UTIL, util_ns)
    util_ns.update(resize=specs.spec_resize)
    util = Mod(util_ns, linops.UTIL)
    ns = base_ns(pywt=PywtC, util=util)
    src.load_module(WAVELET, ns)
    return Mod(ns, WAVELET)


def load_linop_with_real_wavelet():
    wl = load_wavelet()
    util_ns = base_ns()
    src.load_module(linops.UTIL, util_ns)
    util_ns.update(resize=specs.spec_resize)
    util = Mod(util_ns, linops.UTIL)
    ns = base_ns(util=util, wavelet=wl, block=None, conv=None, fourier=None, interp=None)
    src.load_module(linops.LINOP, ns)
    return Mod(ns, linops.LINOP), wl


# ----------------------------------------------------------------------------- obligations
def wvariants(tier):
    out = []
    for r in (1, 2, 3):
        axsets = [None, (-1,), (0,)] + ([(0, 1), (-2, -1), (1, 0), (-1, -2)] if r >= 2 else []) + ([(0, 2), (2, 0)] if r == 3 else [])
        for ax in axsets:
            for level in (None, "sym"):
                if r == 3 and tier == "quick" and (level == "sym") and ax not in (None, (0, 2)):
                    continue
                out.append(dict(rank=r, axes=ax, level=level, wave="db4"))
    out.append(dict(rank=2, axes=None, level=2, wave="haar"))
    out.append(dict(rank=1, axes=None, level=None, wave="opaque"))
    return out


def _args(v):
    level = v["level"]
    if level == "sym":
        level = Sym(z3.Int("level"))
        core.assume(level >= 0)
    wave = v["wave"]
    if wave == "opaque":
        class _W:
            def __repr__(self):
                return "<Wavelet object>"
        wave = _W()
    return wave, level


def job_functions(v, timeout_ms):
    wl = load_wavelet()
    rec = record(WAVELET, "fwt")[0]
    st = {}

    def run():
        n = linops._shape("n", v["rank"])
        wave, level = _args(v)
        x = SArr.input("x", n)
        osh, slices = wl.get_wavelet_shape(n, wave, v["axes"], level)
        y = wl.fwt(x, wave, v["axes"], level)
        u = SArr.input("y", list(y.shape))
        back = wl.iwt(y, n, slices, wave, v["axes"], level)
        adj = wl.iwt(u, n, slices, wave, v["axes"], level)
        st[core.cur()] = (n, x, osh, y, back, adj)
        return True
    results = explore(run, max_paths=64)
    inst = "wavelet(%s)" % linops.vlabel(v)

    def post(r):
        if r.kind != "return":
            return [("C10:fwt/iwt-run-without-error(%s)" % (r.value,), [], z3.BoolVal(False))]
        n, x, osh, y, back, adj = st[r.ctx]
        R = len(n)
        obs = [("C10:coefficient-array-has-the-advertised-shape", [],
                z3.And(z3.BoolVal(len(osh) == len(y.shape)), *[core._lift(a) == core._lift(b) for a, b in zip(osh, y.shape)])),
               ("C10:iwt-returns-the-original-shape", [], z3.And(z3.BoolVal(len(back.shape) == R and len(adj.shape) == R),
                                                                 *[core._lift(a) == core._lift(b) for a, b in zip(list(back.shape) + list(adj.shape), n + n)]))]
        if len(back.shape) != R or len(adj.shape) != R or len(y.shape) != R:
            return obs
        t = [z3.Int("t%d" % d) for d in range(R)]
        k = [z3.Int("k%d" % d) for d in range(R)]
        for sfx, g in lf_equal_goals(back.elem(tuple(t)), x.elem(tuple(t))):
            obs.append(("C10:iwt(fwt(x))==x[%s]" % sfx, box(t, n), g))
        for sfx, g in adjoint_goals(y.elem(tuple(k)), adj.elem(tuple(t)), "x", "y", k, t):
            obs.append(("C10:iwt-is-the-adjoint-of-fwt[%s]" % sfx, box(k, y.shape) + box(t, n), g))
        return obs
    obs, covers = path_obligations("C10/functions/%s" % inst, results, post, instance=inst, fn_record=rec)
    return check_obligations(obs, timeout_ms) + covers


def job_linop(v, timeout_ms):
    lin, wl = load_linop_with_real_wavelet()
    rec = record(linops.LINOP, "Wavelet.__init__")[0]
    st = {}

    def run():
        n = linops._shape("n", v["rank"])
        wave, level = _args(v)
        W = lin.Wavelet(n, axes=v["axes"], wave_name=wave, level=level)
        st[core.cur()] = n
        return W
    results = explore(run, max_paths=64)
    inst = "Wavelet(%s)" % linops.vlabel(v)

    def post(r):
        if r.kind != "return":
            return [("C10:Wavelet-constructs(%s)" % (r.value,), [], z3.BoolVal(False))]
        W = r.value
        n = st[r.ctx]
        R = len(n)
        x = SArr.input("x", n)
        y = W.apply(x)           # Linop.apply itself checks the advertised oshape; restated as an obligation
        obs = [("C10:Wavelet.oshape==shape-of-fwt-output", [], z3.And(z3.BoolVal(len(W.oshape) == len(y.shape)),
                                                                       *[core._lift(a) == core._lift(b) for a, b in zip(W.oshape, y.shape)]))]
        back = W.H.apply(y)
        t = [z3.Int("t%d" % d) for d in range(R)]
        if len(back.shape) == R:
            for sfx, g in lf_equal_goals(back.elem(tuple(t)), x.elem(tuple(t))):
                obs.append(("C10:W.H(W(x))==x[%s]" % sfx, box(t, n), g))
        else:
            obs.append(("C10:W.H-output-rank", [], z3.BoolVal(False)))
        obs += [(nm.replace("C01:", "C10:"), h, g) for nm, h, g in linops.linop_obligations(W, {"C01"})]
        Wi = lin.InverseWavelet(n, axes=v["axes"], wave_name=_args(v)[0] if v["wave"] != "opaque" else W.wave_name, level=W.level)
        obs.append(("C10:InverseWavelet.ishape==Wavelet.oshape", [], z3.And(z3.BoolVal(len(Wi.ishape) == len(W.oshape)),
                                                                             *[core._lift(a) == core._lift(b) for a, b in zip(Wi.ishape, W.oshape)])))
        return obs
    obs, covers = path_obligations("C10/linop/%s" % inst, results, post, instance=inst, fn_record=rec)
    return check_obligations(obs, timeout_ms) + covers


def job_isometry_lemma(timeout_ms):
    """algebra: adjoint pair (W, V) with V W = I  =>  <Wx, Wx> = <x, x>   (so norm preservation follows from the two
    obligations proved on the code); sorts are uninterpreted, proved by instantiation."""
    Vec = z3.DeclareSort("Vec")
    W = z3.Function("W", Vec, Vec)
    V = z3.Function("V", Vec, Vec)
    ip = z3.Function("ip", Vec, Vec, z3.RealSort())
    a, b, x = z3.Consts("a b x", Vec)
    hyps = [z3.ForAll([a, b], ip(W(a), b) == ip(a, V(b))), z3.ForAll([a], V(W(a)) == a)]
    ob = Obligation("C10/lemma/adjoint+left-inverse=>isometry", hyps, ip(W(x), W(x)) == ip(x, x),
                    dict(instance="lemma", goal="||W x||^2 == ||x||^2", kind="lemma"))
    return check_obligations([ob], timeout_ms)


def jobs(tier):
    js = [Job(__name__, "job_functions", v=v) for v in wvariants(tier)]
    js += [Job(__name__, "job_linop", v=v) for v in wvariants(tier) if v["rank"] <= 2]
    js.append(Job(__name__, "job_isometry_lemma"))
    return js


def probes(tier, seed):
    res = native("probe.py", dict(prop="C10", tier=tier, seed=seed), timeout=2400)
    if isinstance(res, dict) and res.get("error"):
        return [dict(name="native-probe", error=res["error"], cases=0)]
    return res


def replay_request(res):
    import ast as _ast
    j = res["job"]
    try:
        v = _ast.literal_eval(j[j.index("v=") + 2:j.rindex(")")])
    except Exception:
        v = {}
    m = res.get("model") or {}
    r = v.get("rank", 1)
    cases = []
    for shape in ([max(1, min(9, model_int(m, "n%d" % d, 5 + d))) for d in range(r)], [5, 6, 3][:r], [8, 7, 4][:r], [3, 2, 5][:r]):
        for wave in ("db4", "haar", "sym3", "coif1"):
            lv = v.get("level")
            cases.append(dict(fn="wavelet.check", args=dict(shape=shape, wave=wave, axes=v.get("axes"), level=(2 if lv == "sym" else lv), seed=0)))
    return dict(fn="multi", args=dict(cases=cases))
