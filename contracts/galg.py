"""Loading sigpy/alg.py for execution on abstract (Gram-domain) vectors."""
from .common import *  # noqa: F401,F403
from pyvc import gram

ALG = "sigpy/alg.py"
UTIL = "sigpy/util.py"


class _GNPX(type(gram.GNP)):
    pass


def load_alg(extra=None):
    """returns (alg module, space factory).  util.axpy/xpay are the real functions."""
    gnp = gram.GNP
    uns = dict(np=gnp, backend=gram.GBACKEND)
    uns.update(snp.builtins_ns())
    src.load_module(UTIL, uns, only=["axpy", "xpay"])
    util = Mod(uns, UTIL)

    class NPNS:
        inf = core.INF

        def __getattr__(self, k):
            raise core.Unsupported("np.%s not modelled for solver code" % k)
    ns = dict(np=NPNS(), backend=gram.GBACKEND, util=util, sp=None)
    ns.update(snp.builtins_ns())
    if extra:
        ns.update(extra)
    src.load_module(ALG, ns)
    return Mod(ns, ALG)
