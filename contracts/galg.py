"""Loading sigpy/alg.py for execution on abstract (Gram-domain) vectors."""
from .common import *  # noqa: F401,F403
from pyvc import gram

ALG = "sigpy/alg.py"
UTIL = "sigpy/util.py"


class _GNPX(type(gram.GNP)):
    pass


def load_alg(extra=None):
    """returns (alg module, space factory).  util.axpy/xpay are the real functions."""
    gnp = gram.GNP
    uns = dict(np=gnp, backend=gram.GBACKEND)
    uns.update(snp.builtins_ns())
    src.load_module(UTIL, uns, only=["axpy", "xpay"])
    util = Mod(uns, UTIL)

    class NPNS:
        inf = core.INF

        def __getattr__(self, k):
            raise core.Unsupported("np.%s not modelled for solver code" % k)
    ns = dict(np=NPNS(), backend=gram.GBACKEND, util=util, sp=None)
    ns.update(snp.builtins_ns())
    if extra:
        ns.update(extra)
    src.load_module(ALG, ns)
    return Mod(ns, ALG)


class FnStub:
    """an abstract (deterministic) vector-valued function: prox(alpha, v), gradf(x), A-as-function ...
    Every distinct argument gets a fresh base vector; an argument seen before (same scalar terms, same
    coefficients) gets the same value again.  `table` pre-loads argument -> value pairs (scenario hypotheses such as
    'x* is a fixed point of the prox step')."""

    def __init__(self, space, name, out_space=0):
        self.space, self.name, self.out_space = space, name, out_space
        self.calls = []          # (scalars, argument copy, result copy)
        self.memo = {}

    @staticmethod
    def _key(scalars, v):
        import z3 as _z
        ks = tuple(str(_z.simplify(core._lift(s))) for s in scalars)
        kv = tuple(sorted((str(a), str(_z.simplify(c))) for a, c in v.d.items()))
        return ks, kv

    def preset(self, scalars, arg, value):
        self.memo[self._key(scalars, arg)] = value.copy()

    def __call__(self, *args):
        *scalars, v = args
        if not isinstance(v, gram.GVec):
            raise core.Unsupported("%s called with %r" % (self.name, type(v)))
        k = self._key(scalars, v)
        if k in self.memo:
            res = self.memo[k].copy()
        else:
            res = self.space.base("%s%d" % (self.name, len(self.memo)), self.out_space)
            self.memo[k] = res.copy()
        self.calls.append((tuple(scalars), v.copy(), res.copy()))
        return res
