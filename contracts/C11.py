"""C11 - proximal operators return the exact minimiser in the input's shape.
Optimality conditions of every thresholding kernel / Prox class in real/complex arithmetic (complex = pairs of reals,
|x| via s >= 0, s^2 = re^2 + im^2), executed on value arrays with symbolic extents."""
import ast
import z3
from .common import *  # noqa: F401,F403
from pyvc.snp import SArr, LF, C

PROX = "sigpy/prox.py"
THRESH = "sigpy/thresh.py"
UTIL = "sigpy/util.py"
ASSUMPTIONS = [
    "alpha > 0, lamda >= 0, epsilon > 0; numba.vectorize maps the scalar kernel over the array (A-numba)",
    "cited, not proved: Moreau decomposition (Conj), prox of a separable sum (Stack), prox under a unitary change of variables "
    "(UnitaryTransform), nearest point of the l2 ball (Cauchy-Schwarz), spectral theorem (PsdProj); the code is proved to BE these formulas",
    "numpy.sum over a symbolic extent of values is an (uninterpreted) function of the summand array and kept indices; it is >= 0 for non-negative summands",
    "l1_proj: sort/cumsum/flatnonzero are abstract (the threshold value is only checked by the bounded probe); shape and soft-threshold form are proved",
]
TRUSTED = ["elementwise-kernel rule of pyvc/snp.py (vectorize: explore the scalar body on a generic element, merge paths by if-then-else)"]
BOUNDS = {"rank": "1..2", "Stack operands": "2..3"}
NOT_DECIDED = ["l1_proj threshold value (sort/cumsum search): bounded probe, lengths <= 6", "BoxConstraint on complex input (numpy's lexicographic complex clip)"]


def functions():
    s = src.Source.get(PROX)
    out = [s.record(q) for q in s.index if q.endswith("._prox") or q in ("Prox.__call__", "Prox._check_shape")]
    out += record(THRESH, "soft_thresh", "hard_thresh", "l1_proj", "l2_proj", "linf_proj", "psd_proj", "_soft_thresh", "_hard_thresh")
    return out


class ProxStub:
    """an inner proximal operator: records its call and returns an arbitrary array of the input's shape"""

    def __init__(self, name, shape):
        self.name, self.shape, self.calls = name, list(shape), []

    def __call__(self, alpha, input):
        self.calls.append((alpha, input))
        return SArr.input("%s_out%d" % (self.name, len(self.calls)), input.shape, valued=True)


class _LinalgV:
    calls = []       # (ord, rank of the argument, its shape): numpy's norm of a 2-D array with ord=1 is the MATRIX norm

    @staticmethod
    def norm(x, ord=None):
        if ord is not None and getattr(x, "ndim", 1) > 2:
            raise snp.SValueError("Improper number of dimensions to norm.")
        _LinalgV.calls.append((core.cur(), ord, getattr(x, "ndim", 0), tuple(getattr(x, "shape", ()))))
        tag = "norm%s<%s>" % (ord, core.fresh_name("a"))
        v = Sym(z3.Real(tag))
        core.define(v.t >= 0)
        return v

    @staticmethod
    def eigh(a):
        raise core.Unsupported("eigh")


def _ns():
    util_ns = base_ns()
    src.load_module(UTIL, util_ns)
    util = Mod(util_ns, UTIL)
    npx = snp.NP
    tns = base_ns(util=util, nb=snp.NB)
    src.load_module(THRESH, tns)
    thresh = Mod(tns, THRESH)
    pns = base_ns(util=util, thresh=thresh)
    src.load_module(PROX, pns)
    return Mod(pns, PROX), thresh, util


def _backend_with(xp):
    class Dev:
        def __enter__(self):
            return self

        def __exit__(self, *a):
            return False
    Dev.xp = xp
    dev = Dev()
    return type("B", (), {"get_array_module": staticmethod(lambda x: xp), "get_device": staticmethod(lambda x: dev),
                          "to_device": staticmethod(lambda x, d=None: x), "cpu_device": dev})()


def job_soft_lemma(timeout_ms):
    """pure arithmetic, code-independent: the closed form p|y| = y max(|y|-l, 0) (p = 0 if y = 0) satisfies the optimality
    condition of  min 0.5|x-y|^2 + l|x| ; proved once, by cases"""
    a, b, c, d, s_, r_, l = z3.Reals("yr yi pr pi ay ap l")
    mm = z3.If(s_ - l >= 0, s_ - l, 0)
    H = [l >= 0, s_ >= 0, s_ * s_ == a * a + b * b, r_ >= 0, r_ * r_ == c * c + d * d,
         c * s_ == a * mm, d * s_ == b * mm, z3.Implies(s_ == 0, z3.And(c == 0, d == 0))]
    G = z3.Or(z3.And(c == 0, d == 0, s_ <= l), z3.And(r_ > 0, (a - c) * r_ == l * c, (b - d) * r_ == l * d))
    obs = [Obligation("C11/lemma/soft-closed-form=>optimality/case:y==0", H + [s_ == 0], G, dict(static=False)),
           Obligation("C11/lemma/soft-closed-form=>optimality/case:0<|y|<=l", H + [s_ > 0, s_ <= l], G, {}),
           Obligation("C11/lemma/soft-closed-form=>optimality/case:|y|>l:|p|==|y|-l", H + [s_ > l], r_ == s_ - l, {}),
           Obligation("C11/lemma/soft-closed-form=>optimality/case:|y|>l", H + [s_ > l, r_ == s_ - l], G, {})]
    return check_obligations(obs, max(timeout_ms, 60000))


def _absw(tag, v):
    """|v| as a fresh non-negative real with its defining constraint"""
    a = z3.Real("abs!" + tag)
    return a, [a >= 0, a * a == v.re * v.re + v.im * v.im]


def _soft_opt(p, y, lam, tag):
    """p = argmin 0.5|x-y|^2 + lam|x|  <=>  (p = 0 and |y| <= lam) or (p != 0 and (y - p)|p| = lam p).
    Proved through a lemma chain (each its own obligation):
      closed-form (code-dependent):  p*|y| = y*max(|y| - lam, 0), and p = 0 when y = 0
      lemma (pure arithmetic, code-independent): the closed form satisfies the optimality condition
    returns list of (name, hyps, goal)"""
    ay, hy = _absw(tag + "y", y)
    ap, hp = _absw(tag + "p", p)
    m = z3.If(ay - lam >= 0, ay - lam, 0)
    closed = z3.And(p.re * ay == y.re * m, p.im * ay == y.im * m, z3.Implies(ay == 0, z3.And(p.re == 0, p.im == 0)))
    opt = z3.Or(z3.And(p.re == 0, p.im == 0, ay <= lam),
                z3.And(ap > 0, (y.re - p.re) * ap == lam * p.re, (y.im - p.im) * ap == lam * p.im))
    # the lemma over plain reals (no array symbols): a, b = y; c, d = p; s = |y|; r = |p|; l = threshold
    a, b, c, d, s_, r_, l = z3.Reals("yr yi pr pi ay ap l")
    mm = z3.If(s_ - l >= 0, s_ - l, 0)
    lem_h = [l >= 0, s_ >= 0, s_ * s_ == a * a + b * b, r_ >= 0, r_ * r_ == c * c + d * d,
             c * s_ == a * mm, d * s_ == b * mm, z3.Implies(s_ == 0, z3.And(c == 0, d == 0))]
    lem_g = z3.Or(z3.And(c == 0, d == 0, s_ <= l), z3.And(r_ > 0, (a - c) * r_ == l * c, (b - d) * r_ == l * d))
    return [("soft:closed-form:p|y|==y*max(|y|-t,0)", hy, closed),
            ("minimiser-of-0.5|x-y|^2+t|x|", hy + hp + [closed, z3.Implies(z3.And(closed, *(hy + hp)), opt)], opt)]


def _shape_ob(out, shape):
    return ("shape==input-shape", [], z3.And(z3.BoolVal(len(out.shape) == len(shape)), *[core._lift(a) == core._lift(b) for a, b in zip(out.shape, shape)])
            if len(out.shape) == len(shape) else z3.BoolVal(False))


def _run(name, rank, build, post_fn, rec, timeout_ms, inst=None):
    """build(P, thresh, shape, y) -> value returned by the code ; post_fn(result, shape, y, k) -> obligations"""
    P, thresh, util = _ns()

    def mk():
        shape = ints("n", rank)
        return shape, SArr.input("y", shape, valued=True)

    def run():
        shape, y = mk()
        for e in shape:
            core.assume(e >= 1)
        return build(P, thresh, shape, y)
    results = explore(run, max_paths=200)

    def post(r):
        if r.kind != "return":
            return [("no-exception(%s)" % type(r.value).__name__, [], z3.BoolVal(False))]
        shape, y = mk()
        k = [z3.Int("k%d" % d) for d in range(rank)]
        obs = []
        for nm, extra, goal in post_fn(r.value, shape, y, k):
            obs.append((nm, (box(k, shape) if nm != "shape==input-shape" else []) + list(extra), goal))
        return obs
    inst = inst or "rank%d" % rank
    obs, covers = path_obligations("C11/%s/%s" % (name, inst), results, post, instance=inst, fn_record=rec)
    return check_obligations(obs, timeout_ms) + covers


def _params():
    alpha, lam, eps = Sym(z3.Real("alpha")), Sym(z3.Real("lamda")), Sym(z3.Real("eps"))
    return alpha, lam, eps


def _assume_params():
    alpha, lam, eps = _params()
    core.assume(core.And(alpha > 0, lam >= 0, eps > 0))
    return alpha, lam, eps


def job_soft(rank, via, timeout_ms):
    """thresh.soft_thresh / prox.L1Reg"""
    rec = record(THRESH, "_soft_thresh")[0] if via == "thresh" else record(PROX, "L1Reg._prox")[0]

    def build(P, thresh, shape, y):
        alpha, lam, eps = _assume_params()
        if via == "thresh":
            return thresh.soft_thresh(lam, y)
        return P.L1Reg(shape, lam)(alpha, y)

    def post(out, shape, y, k):
        alpha, lam, eps = _params()
        th = lam.t if via == "thresh" else lam.t * alpha.t
        if len(out.shape) != len(shape):
            return [_shape_ob(out, shape)]
        return [_shape_ob(out, shape)] + _soft_opt(out.elem(tuple(k)).value(), y.elem(tuple(k)).value(), th, "s")
    return _run("soft_thresh" if via == "thresh" else "L1Reg", rank, build, post, rec, timeout_ms)


def job_hard(rank, timeout_ms):
    rec = record(THRESH, "_hard_thresh")[0]

    def build(P, thresh, shape, y):
        alpha, lam, eps = _assume_params()
        return thresh.hard_thresh(lam, y)

    def post(out, shape, y, k):
        alpha, lam, eps = _params()
        if len(out.shape) != len(shape):
            return [_shape_ob(out, shape)]
        p, yv = out.elem(tuple(k)).value(), y.elem(tuple(k)).value()
        ay, hy = _absw("hy", yv)
        return [_shape_ob(out, shape), ("keeps-y-iff-|y|>lamda", hy, z3.If(ay > lam.t, z3.And(p.re == yv.re, p.im == yv.im), z3.And(p.re == 0, p.im == 0)))]
    return _run("hard_thresh", rank, build, post, rec, timeout_ms)


def job_l2reg(rank, with_y, with_proxh, timeout_ms):
    rec = record(PROX, "L2Reg._prox")[0]
    st = {}

    def build(P, thresh, shape, y):
        alpha, lam, eps = _assume_params()
        z = SArr.input("z", shape, valued=True) if with_y else None
        h = ProxStub("h", shape) if with_proxh else None
        out = P.L2Reg(shape, lam, y=z, proxh=h)(alpha, y)
        return out, h

    def post(res, shape, y, k):
        out, h = res
        alpha, lam, eps = _params()
        z = SArr.input("z", shape, valued=True)
        if len(out.shape) != len(shape):
            return [_shape_ob(out, shape)]
        yv = y.elem(tuple(k)).value()
        zv = z.elem(tuple(k)).value() if with_y else C(0)
        obs = [_shape_ob(out, shape)]
        # v := argmin 0.5|x-y|^2 + alpha*lamda/2 |x-z|^2 :  (1 + alpha lamda) v = y + alpha lamda z
        if not with_proxh:
            p = out.elem(tuple(k)).value()
            obs.append(("stationarity:(p-y)+alpha*lamda*(p-z)==0", [], z3.And(p.re - yv.re + alpha.t * lam.t * (p.re - zv.re) == 0,
                                                                          p.im - yv.im + alpha.t * lam.t * (p.im - zv.im) == 0)))
            return obs
        ok = len(h.calls) == 1
        obs.append(("inner-prox-called-once", [], z3.BoolVal(ok)))
        if not ok:
            return obs
        a2, arg = h.calls[0]
        av = arg.elem(tuple(k)).value()
        obs += [("inner-step==alpha/(1+alpha*lamda)", [], core._lift(a2) * (1 + alpha.t * lam.t) == alpha.t),
                ("inner-argument==(y+alpha*lamda*z)/(1+alpha*lamda)", [], z3.And(av.re * (1 + alpha.t * lam.t) == yv.re + alpha.t * lam.t * zv.re,
                                                                                  av.im * (1 + alpha.t * lam.t) == yv.im + alpha.t * lam.t * zv.im)),
                ("returns-the-inner-prox-value", [], snp.lf_equal_goal(out.elem(tuple(k)), SArr.input("h_out1", shape, valued=True).elem(tuple(k))))]
        return obs
    return _run("L2Reg", rank, build, post, rec, timeout_ms, inst="rank%d,y=%s,proxh=%s" % (rank, with_y, with_proxh))


def _radial_goal(p, d, r, tag):
    """p = d if |d| <= r else r d/|d|   (projection of d onto the ball of radius r)"""
    ad, hd = _absw(tag, d)
    return hd, z3.If(ad <= r, z3.And(p.re == d.re, p.im == d.im), z3.And(p.re * ad == r * d.re, p.im * ad == r * d.im))


def job_linf(rank, with_bias, via, timeout_ms):
    rec = record(THRESH, "linf_proj")[0] if via == "thresh" else record(PROX, "LInfProj._prox")[0]

    def build(P, thresh, shape, y):
        alpha, lam, eps = _assume_params()
        b = SArr.input("b", shape, valued=True) if with_bias else None
        if via == "thresh":
            return thresh.linf_proj(eps, y, bias=b)
        return P.LInfProj(shape, eps, bias=b)(alpha, y)

    def post(out, shape, y, k):
        alpha, lam, eps = _params()
        b = SArr.input("b", shape, valued=True)
        if len(out.shape) != len(shape):
            return [_shape_ob(out, shape)]
        yv, p = y.elem(tuple(k)).value(), out.elem(tuple(k)).value()
        bv = b.elem(tuple(k)).value() if with_bias else C(0)
        hy, goal = _radial_goal(p - bv, yv - bv, eps.t, "li")
        return [_shape_ob(out, shape), ("elementwise-radial-projection-onto-|x-b|<=eps", hy, goal)]
    return _run("linf_proj" if via == "thresh" else "LInfProj", rank, build, post, rec, timeout_ms, inst="rank%d,bias=%s" % (rank, with_bias))


def job_l2proj(rank, axes, with_bias, timeout_ms):
    rec = record(THRESH, "l2_proj")[0]
    sums = []

    def build(P, thresh, shape, y):
        alpha, lam, eps = _assume_params()
        b = SArr.input("b", shape, valued=True) if with_bias else 0
        # record the code's own reduction so that the postcondition can speak about N = sqrt(sum |y-b|^2)
        real_sum = snp.NP.sum

        class XP(type(snp.NP)):
            @staticmethod
            def sum(a, axis=None, keepdims=False, **kw):
                r = real_sum(a, axis=axis, keepdims=keepdims)
                sums.append((r, axis, keepdims))
                return r
        xp = XP()
        thresh._ns["backend"] = _backend_with(xp)
        thresh._ns["np"] = xp
        del sums[:]
        out = P.L2Proj(shape, eps, y=b, axes=axes)(alpha, y)
        return out, list(sums)

    def post(res, shape, y, k):
        out, recs = res
        alpha, lam, eps = _params()
        b = SArr.input("b", shape, valued=True)
        if len(out.shape) != len(shape):
            return [_shape_ob(out, shape)]
        obs = [_shape_ob(out, shape), ("one-reduction-with-keepdims-over-the-requested-axes", [], z3.BoolVal(
            len(recs) == 1 and recs[0][2] is True and sorted(a % rank for a in (recs[0][1] if recs[0][1] is not None else range(rank)))
            == sorted(a % rank for a in (axes if axes is not None else range(rank)))))]
        if len(recs) != 1 or recs[0][2] is not True:
            return obs
        red = sorted(a % rank for a in (axes if axes is not None else range(rank)))
        S_arr = recs[0][0]
        kk = tuple(z3.IntVal(0) if d in red else k[d] for d in range(rank))
        S = S_arr.elem(kk).value()
        yv, p = y.elem(tuple(k)).value(), out.elem(tuple(k)).value()
        bv = b.elem(tuple(k)).value() if with_bias else C(0)
        d, q = yv - bv, p - bv
        N = z3.Real("N")
        obs.append(("closed-form:(y-b)*min(1,eps/N)+b,N=l2-norm-over-axes", [N >= 0, N * N == S.re, S.im == 0],
                    z3.If(N < eps.t, z3.And(q.re == d.re, q.im == d.im), z3.And(q.re * N == eps.t * d.re, q.im * N == eps.t * d.im))))
        return obs
    return _run("L2Proj", rank, build, post, rec, timeout_ms, inst="rank%d,axes=%s,bias=%s" % (rank, axes, with_bias))


def job_box(rank, timeout_ms):
    rec = record(PROX, "BoxConstraint._prox")[0]

    def build(P, thresh, shape, y):
        lo, hi = Sym(z3.Real("lo")), Sym(z3.Real("hi"))
        core.assume(lo <= hi)
        yr = SArr(shape, lambda k: LF(C(y.elem(k).value().re)), snp.FDT)
        return P.BoxConstraint(shape, lo, hi)(Sym(z3.Real("alpha")), yr)

    def post(out, shape, y, k):
        lo, hi = z3.Real("lo"), z3.Real("hi")
        if len(out.shape) != len(shape):
            return [_shape_ob(out, shape)]
        yv, p = y.elem(tuple(k)).value().re, out.elem(tuple(k)).value()
        return [_shape_ob(out, shape), ("nearest-point-of-[lo,hi]", [], z3.And(p.im == 0, p.re == z3.If(yv < lo, lo, z3.If(yv > hi, hi, yv))))]
    return _run("BoxConstraint", rank, build, post, rec, timeout_ms)


def job_conj(rank, timeout_ms):
    rec = record(PROX, "Conj._prox")[0]

    def build(P, thresh, shape, y):
        alpha, lam, eps = _assume_params()
        h = ProxStub("h", shape)
        return P.Conj(h)(alpha, y), h

    def post(res, shape, y, k):
        out, h = res
        alpha, lam, eps = _params()
        if len(out.shape) != len(shape):
            return [_shape_ob(out, shape)]
        ok = len(h.calls) == 1
        obs = [_shape_ob(out, shape), ("inner-prox-called-once", [], z3.BoolVal(ok))]
        if not ok:
            return obs
        a2, arg = h.calls[0]
        yv, av, p = y.elem(tuple(k)).value(), arg.elem(tuple(k)).value(), out.elem(tuple(k)).value()
        hv = SArr.input("h_out1", shape, valued=True).elem(tuple(k)).value()
        obs += [("moreau:inner-step==1/alpha", [], core._lift(a2) * alpha.t == 1),
                ("moreau:inner-argument==y/alpha", [], z3.And(av.re * alpha.t == yv.re, av.im * alpha.t == yv.im)),
                ("moreau:out==y-alpha*prox_{g/alpha}(y/alpha)", [], z3.And(p.re == yv.re - alpha.t * hv.re, p.im == yv.im - alpha.t * hv.im))]
        return obs
    return _run("Conj", rank, build, post, rec, timeout_ms)


def job_unitary(rank, timeout_ms):
    rec = record(PROX, "UnitaryTransform._prox")[0]

    class AStub:
        def __init__(self, shape):
            self.ishape = list(shape)
            self.calls = []

        def __call__(self, x):
            self.calls.append(("A", x))
            return SArr.input("Ax%d" % len(self.calls), x.shape, valued=True)

        @property
        def H(self):
            outer = self

            class AH:
                def __call__(s, x):
                    outer.calls.append(("AH", x))
                    return SArr.input("AHx%d" % len(outer.calls), x.shape, valued=True)
            return AH()

    def build(P, thresh, shape, y):
        alpha, lam, eps = _assume_params()
        h, A = ProxStub("h", shape), AStub(shape)
        return P.UnitaryTransform(h, A)(alpha, y), h, A

    def post(res, shape, y, k):
        out, h, A = res
        alpha, lam, eps = _params()
        seq = [c[0] for c in A.calls]
        ok = seq == ["A", "AH"] and len(h.calls) == 1
        obs = [_shape_ob(out, shape), ("A-then-prox-then-AH", [], z3.BoolVal(ok))]
        if not ok:
            return obs
        kk = tuple(k)
        obs += [("A-applied-to-the-input", [], snp.lf_equal_goal(A.calls[0][1].elem(kk), y.elem(kk))),
                ("prox-step==alpha-on-A(y)", [], z3.And(core._lift(h.calls[0][0]) == alpha.t, snp.lf_equal_goal(h.calls[0][1].elem(kk), SArr.input("Ax1", shape, valued=True).elem(kk)))),
                ("AH-applied-to-the-prox-value", [], snp.lf_equal_goal(A.calls[1][1].elem(kk), SArr.input("h_out1", shape, valued=True).elem(kk))),
                ("returns-AH(prox(A y))", [], snp.lf_equal_goal(out.elem(kk), SArr.input("AHx2", shape, valued=True).elem(kk)))]
        return obs
    return _run("UnitaryTransform", rank, build, post, rec, timeout_ms)


def job_stack(nops, scalar_alpha, timeout_ms):
    rec = record(PROX, "Stack._prox")[0]
    P, thresh, util = _ns()

    def mk():
        sizes = ints("s", nops)
        tot = sizes[0]
        for s_ in sizes[1:]:
            tot = tot + s_
        return sizes, tot

    def run():
        sizes, tot = mk()
        for s_ in sizes:
            core.assume(s_ >= 1)
        hs = [ProxStub("h%d" % j, [sizes[j]]) for j in range(nops)]
        y = SArr.input("y", [tot], valued=True)
        alpha = Sym(z3.Real("alpha")) if scalar_alpha else SArr.input("alpha", [tot], valued=True)
        return P.Stack(hs)(alpha, y), hs
    results = explore(run)

    def post(r):
        if r.kind != "return":
            return [("no-exception", [], z3.BoolVal(False))]
        out, hs = r.value
        sizes, tot = mk()
        y = SArr.input("y", [tot], valued=True)
        obs = [("shape==input-shape", [], z3.And(z3.BoolVal(len(out.shape) == 1), core._lift(out.shape[0]) == tot.t) if len(out.shape) == 1 else z3.BoolVal(False))]
        off = 0
        j0 = z3.Int("j")
        for j, h in enumerate(hs):
            ok = len(h.calls) == 1
            obs.append(("block%d:inner-prox-called-once" % j, [], z3.BoolVal(ok)))
            if not ok:
                continue
            a2, arg = h.calls[0]
            rng = [j0 >= 0, j0 < sizes[j].t]
            obs.append(("block%d:argument==slice[prefix-sum..)" % j, rng, z3.And(core._lift(arg.shape[0]) == sizes[j].t,
                        snp.lf_equal_goal(arg.elem((j0,)), y.elem((z3.simplify(j0 + core._lift(off)),))))))
            if scalar_alpha:
                obs.append(("block%d:step==alpha" % j, [], core._lift(a2) == z3.Real("alpha")))
            else:
                al = SArr.input("alpha", [tot], valued=True)
                obs.append(("block%d:step==alpha-slice" % j, rng, snp.lf_equal_goal(a2.elem((j0,)), al.elem((z3.simplify(j0 + core._lift(off)),)))))
            obs.append(("block%d:output-slice==inner-prox-value" % j, rng,
                        snp.lf_equal_goal(out.elem((z3.simplify(j0 + core._lift(off)),)), SArr.input("h%d_out1" % j, [sizes[j]], valued=True).elem((j0,)))))
            off = off + sizes[j]
        return obs
    inst = "operands=%d,scalar_alpha=%s" % (nops, scalar_alpha)
    obs, covers = path_obligations("C11/Stack/%s" % inst, results, post, instance=inst, fn_record=rec)
    return check_obligations(obs, timeout_ms) + covers


def job_noop_call(rank, timeout_ms):
    """NoOp is the identity; Prox.__call__ returns _prox's value and rejects inputs of another shape"""
    rec = record(PROX, "Prox.__call__")[0]
    P, thresh, util = _ns()

    def run():
        n, m = ints("n", rank), ints("m", rank)
        for e in n + m:
            core.assume(e >= 1)
        y = SArr.input("y", m, valued=True)
        return P.NoOp(n)(Sym(z3.Real("alpha")), y)
    results = explore(run)

    def post(r):
        n, m = ints("n", rank), ints("m", rank)
        same = z3.And(*[a.t == b.t for a, b in zip(n, m)])
        if r.kind != "return":
            return [("raises-only-on-shape-mismatch", [], z3.Not(same))]
        y = SArr.input("y", m, valued=True)
        k = [z3.Int("k%d" % d) for d in range(rank)]
        return [("accepts-only-matching-shapes", [], same), ("NoOp-returns-y", box(k, m), snp.lf_equal_goal(r.value.elem(tuple(k)), y.elem(tuple(k))))]
    obs, covers = path_obligations("C11/Prox.__call__/rank%d" % rank, results, post, instance="rank%d" % rank, fn_record=rec)
    return check_obligations(obs, timeout_ms) + covers


def job_l1proj(rank, timeout_ms):
    """shape post on both paths; the returned array is y itself (feasible) or a soft-threshold of y (abstract threshold)"""
    rec = record(THRESH, "l1_proj")[0]
    P, thresh, util = _ns()

    class XP(type(snp.NP)):
        linalg = _LinalgV()

        @staticmethod
        def sort(a):
            return SArr.input("sorted", a.shape, valued=True)

        @staticmethod
        def cumsum(a):
            return SArr.input("cumsum", a.shape, valued=True)

        @staticmethod
        def arange(n):
            return SArr([n], lambda k: LF(C(k[0])), snp.IDT)

        @staticmethod
        def flatnonzero(a):
            class _R:
                def max(self_inner):
                    i = Sym(z3.Int("idx"))
                    core.assume(core.And(i >= 0, i < a.shape[0]))
                    return i
            return _R()
    xp = XP()
    thresh._ns["backend"] = _backend_with(xp)
    thresh._ns["np"] = xp

    def mk():
        return ints("n", rank)

    def run():
        shape = mk()
        for e in shape:
            core.assume(e >= 1)
        eps = Sym(z3.Real("eps"))
        core.assume(eps > 0)
        return P.L1Proj(shape, eps)(Sym(z3.Real("alpha")), SArr.input("y", shape, valued=True))
    results = explore(run)

    def post(r):
        shape = mk()
        if r.kind != "return":
            return [("no-exception(%s)" % type(r.value).__name__, [], z3.BoolVal(False))]
        # the feasibility test must use the ENTRYWISE l1 norm: numpy gives that for ord=1 only on a 1-D (ravelled) array of all entries
        mine = [c for c in _LinalgV.calls if c[0] is r.ctx and c[1] == 1]
        ok = bool(mine) and all(c[2] == 1 for c in mine)
        size_ok = z3.And(*[core._lift(c[3][0]) == core._lift(snp.prod(shape)) for c in mine if c[2] == 1]) if ok else z3.BoolVal(False)
        return [_shape_ob(r.value, shape),
                ("l1-norm-is-taken-entrywise(over the ravelled array of all entries)", [], z3.And(z3.BoolVal(ok), size_ok))]
    obs, covers = path_obligations("C11/L1Proj/rank%d" % rank, results, post, instance="rank%d" % rank, fn_record=rec)
    return check_obligations(obs, timeout_ms) + covers


def job_psd(timeout_ms):
    """PsdProj: V diag(w+) V^H is the projection iff V is unitary, which the contract of numpy.linalg.eigh provides and
    that of numpy.linalg.eig does not (repeated eigenvalues)."""
    s = src.Source.get(THRESH)
    node = s.node("psd_proj")
    rec = s.record("psd_proj")
    called = {n.func.attr for n in ast.walk(node) if isinstance(n, ast.Call) and isinstance(n.func, ast.Attribute)}
    meta = dict(function=rec["function"], file=rec["file"], lines=rec["lines"], sha256=rec["sha256"], static=True, calls=sorted(called))
    obs = [Obligation("C11/psd_proj/eigenvectors-come-with-an-orthonormality-contract(eigh)", [], z3.BoolVal("eigh" in called and "eig" not in called), meta)]
    return check_obligations(obs, timeout_ms)


def probes(tier, seed):
    res = native("probe.py", dict(prop="C11", tier=tier, seed=seed), timeout=1500)
    if isinstance(res, dict) and res.get("error"):
        return [dict(name="native-probe", error=res["error"], cases=0)]
    return res


def replay_request(res):
    n = res["name"]
    m = res.get("model") or {}
    if "psd_proj" in n:
        return dict(fn="prox.check", args=dict(kind="PsdProj", shape=[4, 4], complex=False, seed=0))
    kinds = {"L1Proj": "L1Proj", "L1Reg": "L1Reg", "soft_thresh": "L1Reg", "L2Reg": "L2Reg", "L2Proj": "L2Proj", "LInfProj": "LInfProj",
             "linf_proj": "LInfProj", "BoxConstraint": "Box", "Conj": "Conj(L1)", "Stack": "Stack", "UnitaryTransform": "Unitary(FFT,L1)"}
    for key, kind in kinds.items():
        if "/%s/" % key in n:
            rank = 2 if "rank2" in n else 1
            shape = [max(1, min(6, model_int(m, "n%d" % d, 3 + d))) for d in range(rank)]
            cases = [dict(fn="prox.check", args=dict(kind=kind, shape=shape, complex=c, special=sp_, bias=("bias=True" in n or "y=True" in n), alpha=0.7, seed=0))
                     for c in (True, False) for sp_ in (None, "feasible", "on-threshold")]
            return dict(fn="multi", args=dict(cases=cases))
    return None


def job_psd_form(n, timeout_ms):
    """with the eigh contract (A = V diag(w) V^H, V unitary, w real) the real psd_proj body must compute V diag(max(w,0)) V^H
    elementwise: out[i,j] = sum_l V[i,l] max(w[l],0) conj(V[j,l]).  Matrix order n concrete (structural bound)."""
    rec = record(THRESH, "psd_proj")[0]
    P, thresh, util = _ns()
    seen = []

    class XP(type(snp.NP)):
        class linalg:
            @staticmethod
            def eigh(a):
                seen.append(a)
                return SArr.input("w", [n], valued=True).real, SArr.input("V", [n, n], valued=True)

            @staticmethod
            def eig(a):
                raise core.Unsupported("numpy.linalg.eig has no orthonormality contract")
    xp = XP()
    thresh._ns["backend"] = _backend_with(xp)
    thresh._ns["np"] = xp

    def run():
        del seen[:]
        y = SArr.input("y", [n, n], valued=True)
        return P.PsdProj([n, n])(Sym(z3.Real("alpha")), y), list(seen)
    results = explore(run)

    def post(r):
        if r.kind != "return":
            return [("no-exception(%s)" % type(r.value).__name__, [], z3.BoolVal(False))]
        out, calls = r.value
        y = SArr.input("y", [n, n], valued=True)
        w, V = SArr.input("w", [n], valued=True), SArr.input("V", [n, n], valued=True)
        obs = [_shape_ob(out, [n, n]), ("eigh-called-once", [], z3.BoolVal(len(calls) == 1))]
        if len(calls) != 1 or len(out.shape) != 2:
            return obs
        for i in range(n):
            for j in range(n):
                a = calls[0].elem((z3.IntVal(i), z3.IntVal(j))).value()
                yij, yji = y.elem((z3.IntVal(i), z3.IntVal(j))).value(), y.elem((z3.IntVal(j), z3.IntVal(i))).value()
                obs.append(("eigh-of-the-hermitian-part[%d,%d]" % (i, j), [], z3.And(2 * a.re == yij.re + yji.re, 2 * a.im == yij.im - yji.im)))
                want = C(0)
                for l in range(n):
                    wl = w.elem((z3.IntVal(l),)).value().re
                    wp = C(z3.If(wl < 0, z3.RealVal(0), wl))
                    want = want + V.elem((z3.IntVal(i), z3.IntVal(l))).value() * wp * V.elem((z3.IntVal(j), z3.IntVal(l))).value().conjugate()
                got = out.elem((z3.IntVal(i), z3.IntVal(j))).value()
                obs.append(("V*max(w,0)*V^H[%d,%d]" % (i, j), [], z3.And(got.re == want.re, got.im == want.im)))
        return obs
    obs, covers = path_obligations("C11/psd_proj/form,n=%d" % n, results, post, instance="n=%d" % n, fn_record=rec)
    return check_obligations(obs, timeout_ms) + covers


def jobs(tier):
    M = "contracts.C11"
    js = [Job(M, "job_psd"), Job(M, "job_soft_lemma"), Job(M, "job_psd_form", n=2), Job(M, "job_psd_form", n=3)]
    for rank in (1, 2):
        js += [Job(M, "job_soft", rank=rank, via="thresh"), Job(M, "job_soft", rank=rank, via="prox"), Job(M, "job_hard", rank=rank),
               Job(M, "job_box", rank=rank), Job(M, "job_conj", rank=rank), Job(M, "job_unitary", rank=rank), Job(M, "job_noop_call", rank=rank),
               Job(M, "job_l1proj", rank=rank)]
        for wy in (False, True):
            for wp in (False, True):
                js.append(Job(M, "job_l2reg", rank=rank, with_y=wy, with_proxh=wp))
            js.append(Job(M, "job_linf", rank=rank, with_bias=wy, via="thresh"))
            js.append(Job(M, "job_linf", rank=rank, with_bias=wy, via="prox"))
            for axes in ((None,) if rank == 1 else (None, (0,), (-1,))):
                js.append(Job(M, "job_l2proj", rank=rank, axes=axes, with_bias=wy))
    for nops in (2, 3):
        for sa in (True, False):
            js.append(Job(M, "job_stack", nops=nops, scalar_alpha=sa))
    return js
