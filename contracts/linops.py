"""Contracts on sigpy/linop.py shared by C01 (adjoints), C02 (linearity), C03 (algebra/shapes), C04 (normal operators).

The real classes of sigpy/linop.py are loaded from /repo's AST into a namespace in which the array functions they call
are replaced by their CONTRACTS (callee contracts, proved under C05/C07/C08/C09/C10):
  * util.resize/flip/circshift/downsample/upsample, block.array_to_blocks/blocks_to_array: the symbolic spec functions
    of contracts/specs.py (exact index maps);
  * fourier.fft/ifft, fourier.nufft/nufft_adjoint, interp.interpolate/gridding, conv.convolve*, wavelet.fwt/iwt: an
    abstract kernel  out[k] = sum_t K_key(k, t) x[t]  whose function symbol is named after EVERY argument that determines
    the kernel (coordinates object, width, oversampling, kernel name, axes, centre flag, mode, strides, filter object...);
    the adjoint function of the pair uses conj(K_key(t, k)) with the key built from ITS arguments - so the adjoint
    obligation of a Linop class succeeds exactly when it forwards the same parameters to the adjoint function.
"""
import itertools
import z3
from .common import *  # noqa: F401,F403
from . import specs
from pyvc.snp import SArr, LF, C, Term, Binder, lf_equal_goals, coef_of

LINOP = "sigpy/linop.py"
UTIL = "sigpy/util.py"
CONV = "sigpy/conv.py"


# ----------------------------------------------------------------------------- abstract kernels (callee contracts)
def _key(*parts):
    out = []
    for p in parts:
        if isinstance(p, SArr):
            out.append("arr:%s" % (p.name or "anon%d" % id(p)))
        elif isinstance(p, (list, tuple, range)):
            out.append("(" + ",".join(_key(q) for q in p) + ")")
        elif isinstance(p, (Sym, C)) or z3.is_expr(p):
            out.append(str(z3.simplify(core._lift(p))) if not isinstance(p, C) else "%s+%sj" % (p.re, p.im))
        else:
            out.append(repr(p))
    return "|".join(out)


def kernel_apply(key, x, out_core_shape, ncore_in, transposed=False, real_kernel=False):
    """out[b.., k..] = sum_{t in box} K(k.., t..) x[b.., t..]    (transposed: conj(K(t.., k..)))
    the kernel acts on the trailing ncore_in axes of x; leading axes are batch axes (identity)."""
    nb = x.ndim - ncore_in
    if nb < 0:
        raise snp.SValueError("input has fewer axes than the transform")
    in_core = x.shape[nb:]
    out_core = tuple(out_core_shape)
    shape = tuple(x.shape[:nb]) + out_core
    snap = x._snapshot()
    nk, nt = len(out_core), len(in_core)

    def el(k):
        kb, kc = k[:nb], k[nb:]
        ts = [core.fresh_int("t") for _ in range(nt)]
        binders = [Binder(t, 0, n) for t, n in zip(ts, in_core)]
        args = (list(ts) + list(kc)) if transposed else (list(kc) + list(ts))
        sorts = [z3.IntSort()] * len(args) + [z3.RealSort()]
        fre = z3.Function("K<%s>.re" % key, *sorts)(*args)
        fim = z3.RealVal(0) if real_kernel else z3.Function("K<%s>.im" % key, *sorts)(*args)
        w = C(fre, -fim if transposed else fim)
        v = snap(tuple(kb) + tuple(ts))
        if not v.const.is_zero():
            raise core.Unsupported("abstract kernel applied to a non-homogeneous value")
        terms = [Term(tuple(binders) + t.binders, tuple(b.range_cond() for b in binders) + t.guard, t.coef * w, t.atom, t.idx, t.conj)
                 for t in v.terms]
        return LF(snp.C0, terms)
    return SArr(shape, el, x.dtype)


class FourierC:
    """contracts of sigpy.fourier used by linop.py (proved / assumed under C05, C06)"""

    @staticmethod
    def _axes(axes, ndim):
        if axes is None:
            return tuple(range(ndim))
        return tuple(sorted(a % ndim for a in axes))

    @staticmethod
    def _ft(x, axes, center, norm, inverse):
        ax = FourierC._axes(axes, x.ndim)
        # centred / uncentred unitary DFT along `ax`: kernel separable per axis; key carries axis extents, centre, norm
        # the transform acts on the listed axes only: move them last conceptually by treating the others as batch via a product kernel
        keep = [d for d in range(x.ndim) if d not in ax]
        perm = keep + list(ax)
        xt = snp.transpose(x, perm)
        key = _key("dft", [x.shape[a] for a in ax], bool(center) if isinstance(center, bool) else center, norm)
        yt = kernel_apply(key, xt, [x.shape[a] for a in ax], len(ax), transposed=inverse)
        inv = [perm.index(d) for d in range(x.ndim)]
        return snp.transpose(yt, inv)

    @staticmethod
    def fft(input, oshape=None, axes=None, center=True, norm="ortho"):
        if oshape is not None:
            raise core.Unsupported("fft with oshape inside linop")
        return FourierC._ft(input, axes, center, norm, False)

    @staticmethod
    def ifft(input, oshape=None, axes=None, center=True, norm="ortho"):
        if oshape is not None:
            raise core.Unsupported("ifft with oshape inside linop")
        return FourierC._ft(input, axes, center, norm, True)

    @staticmethod
    def nufft(input, coord, oversamp=1.25, width=4):
        ndim = coord.shape[-1]
        key = _key("nufft", coord, oversamp, width, list(input.shape[-ndim:]))
        return kernel_apply(key, input, coord.shape[:-1], ndim)

    @staticmethod
    def nufft_adjoint(input, coord, oshape=None, oversamp=1.25, width=4):
        ndim = coord.shape[-1]
        oshape = list(oshape)
        key = _key("nufft", coord, oversamp, width, oshape[-ndim:])
        npts = len(coord.shape) - 1
        out = kernel_apply(key, input, oshape[-ndim:], npts, transposed=True)
        if len(out.shape) != len(oshape) or not all(snp._same(a, b) for a, b in zip(out.shape, oshape)):
            raise snp.SValueError("nufft_adjoint: requested oshape does not fit the input")
        return out

    @staticmethod
    def toeplitz_psf(coord, shape, oversamp=1.25, width=4):
        ndim = coord.shape[-1]
        name = "psf<%s>" % _key(coord, oversamp, width, list(shape))
        return SArr.input(name, [2 * s for s in shape[-ndim:]], valued=True)


class InterpC:
    @staticmethod
    def interpolate(input, coord, kernel="spline", width=2, param=1):
        ndim = coord.shape[-1]
        key = _key("interp", coord, kernel, width, param, list(input.shape[-ndim:]))
        return kernel_apply(key, input, coord.shape[:-1], ndim, real_kernel=True)

    @staticmethod
    def gridding(input, coord, shape, kernel="spline", width=2, param=1):
        ndim = coord.shape[-1]
        shape = list(shape)
        key = _key("interp", coord, kernel, width, param, shape[-ndim:])
        npts = len(coord.shape) - 1
        out = kernel_apply(key, input, shape[-ndim:], npts, transposed=True, real_kernel=True)
        if len(out.shape) != len(shape) or not all(snp._same(a, b) for a, b in zip(out.shape, shape)):
            raise snp.SValueError("gridding: requested shape does not fit the input")
        return out


class WaveletC:
    @staticmethod
    def get_wavelet_shape(shape, wave_name="db4", axes=None, level=None):
        # assumed pywt contract: the coefficient-array shape is a function of (shape, wavelet, axes, level) only
        key = _key("wshape", list(shape), wave_name, None if axes is None else list(axes), level)
        oshape = [Sym(z3.Int("w<%s>[%d]" % (key, d))) for d in range(len(shape))]
        for o in oshape:
            core.assume(o >= 1)
        return oshape, ("coeff_slices", key)

    @staticmethod
    def fwt(input, wave_name="db4", axes=None, level=None):
        oshape, _ = WaveletC.get_wavelet_shape(input.shape, wave_name, axes, level)
        key = _key("wavelet", list(input.shape), wave_name, None if axes is None else list(axes), level)
        return kernel_apply(key, input, oshape, input.ndim, real_kernel=True)

    @staticmethod
    def iwt(input, oshape, coeff_slices, wave_name="db4", axes=None, level=None):
        oshape = list(oshape)
        key = _key("wavelet", oshape, wave_name, None if axes is None else list(axes), level)
        if coeff_slices != ("coeff_slices", _key("wshape", oshape, wave_name, None if axes is None else list(axes), level)):
            raise snp.SValueError("iwt: coefficient slices do not belong to this shape/wavelet/axes/level")
        return kernel_apply(key, input, oshape, input.ndim, transposed=True, real_kernel=True)


def _conv_key(data_shape, filt_shape, mode, strides, multi_channel):
    return _key("conv", list(data_shape), list(filt_shape), mode, None if strides is None else list(strides), multi_channel)


def make_conv(convmod):
    """contracts of sigpy.conv: bilinear kernel  out[o] = sum_{d,f} T(o,d,f) data[d] filt[f]; the real
    _get_convolve_params computes every shape."""

    class ConvC:
        _get_convolve_params = staticmethod(convmod._get_convolve_params)

        @staticmethod
        def _oshape(data_shape, filt_shape, mode, strides, multi_channel):
            D, b, B, m, n, s, c_i, c_o, p = convmod._get_convolve_params(data_shape, filt_shape, mode, strides, multi_channel)
            return tuple(b) + ((c_o,) if multi_channel else ()) + tuple(p)

        @staticmethod
        def _bilinear(key, out_shape, data, filt, wrt, transposed):
            """wrt='data': linear in data with filt as coefficient array; wrt='filt' the other way round.
            forward: out[o] = sum_{d,f} T(o,d,f) data[d] filt[f]
            transposed wrt data: out[d] = sum_{o,f} conj(T(o,d,f) filt[f]) y[o]   (real T)"""
            dshape, fshape = (data.shape if isinstance(data, SArr) else tuple(data)), (filt.shape if isinstance(filt, SArr) else tuple(filt))
            oshape = tuple(out_shape)

            def T(o, d, f):
                args = list(o) + list(d) + list(f)
                return z3.Function("T<%s>" % key, *([z3.IntSort()] * len(args) + [z3.RealSort()]))(*args)

            def fresh(shape, p):
                vs = [core.fresh_int(p) for _ in shape]
                return vs, [Binder(v, 0, n) for v, n in zip(vs, shape)]
            if not transposed:
                lin, par = (data, filt) if wrt == "data" else (filt, data)
                ls, ps = lin._snapshot(), par._snapshot()

                def el(o):
                    lv, lb = fresh(lin.shape, "c")
                    pv, pb = fresh(par.shape, "c")
                    d, f = (lv, pv) if wrt == "data" else (pv, lv)
                    w = C(T(o, d, f)) * ps(tuple(pv)).value()
                    v = ls(tuple(lv))
                    bs = lb + pb
                    return LF(snp.C0, [Term(tuple(bs) + t.binders, tuple(b.range_cond() for b in bs) + t.guard, t.coef * w, t.atom, t.idx, t.conj) for t in v.terms])
                return SArr(oshape, el, snp.CDT)
            # transposed: input y has the forward output shape; result has the shape of the linear argument
            y, par = (data, filt) if wrt == "data" else (filt, data)     # here `data`/`filt` slot carries y
            raise core.Unsupported("use _adjoint()")

        @staticmethod
        def convolve(data, filt, mode="full", strides=None, multi_channel=False, _lin=None):
            osh = ConvC._oshape(data.shape, filt.shape, mode, strides, multi_channel)
            key = _conv_key(data.shape, filt.shape, mode, strides, multi_channel)
            # which argument is the linear input? the one whose elements are linear forms (not values)
            probe_d = data.elem(tuple(z3.IntVal(0) for _ in data.shape))
            wrt = "data" if probe_d.terms else "filt"
            return ConvC._bilinear(key, osh, data, filt, wrt, False)

        @staticmethod
        def _adjoint(y, other, lin_shape, key, wrt):
            ys, os_ = y._snapshot(), other._snapshot()
            lin_shape = tuple(lin_shape)

            def T(o, d, f):
                args = list(o) + list(d) + list(f)
                return z3.Function("T<%s>" % key, *([z3.IntSort()] * len(args) + [z3.RealSort()]))(*args)

            def el(l):
                ov = [core.fresh_int("c") for _ in y.shape]
                pv = [core.fresh_int("c") for _ in other.shape]
                bs = [Binder(v, 0, n) for v, n in zip(ov, y.shape)] + [Binder(v, 0, n) for v, n in zip(pv, other.shape)]
                d, f = (list(l), pv) if wrt == "data" else (pv, list(l))
                w = (C(T(ov, d, f)) * os_(tuple(pv)).value()).conjugate()
                v = ys(tuple(ov))
                return LF(snp.C0, [Term(tuple(bs) + t.binders, tuple(b.range_cond() for b in bs) + t.guard, t.coef * w, t.atom, t.idx, t.conj) for t in v.terms])
            return SArr(lin_shape, el, snp.CDT)

        @staticmethod
        def convolve_data_adjoint(output, filt, data_shape, mode="full", strides=None, multi_channel=False):
            osh = ConvC._oshape(data_shape, filt.shape, mode, strides, multi_channel)
            if len(osh) != output.ndim or not all(snp._same(a, b) for a, b in zip(osh, output.shape)):
                raise snp.SValueError("convolve_data_adjoint: output shape does not match data_shape/filter/mode/strides")
            key = _conv_key(data_shape, filt.shape, mode, strides, multi_channel)
            return ConvC._adjoint(output, filt, data_shape, key, "data")

        @staticmethod
        def convolve_filter_adjoint(output, data, filt_shape, mode="full", strides=None, multi_channel=False):
            osh = ConvC._oshape(data.shape, filt_shape, mode, strides, multi_channel)
            if len(osh) != output.ndim or not all(snp._same(a, b) for a, b in zip(osh, output.shape)):
                raise snp.SValueError("convolve_filter_adjoint: output shape does not match data/filt_shape/mode/strides")
            key = _conv_key(data.shape, filt_shape, mode, strides, multi_channel)
            return ConvC._adjoint(output, data, filt_shape, key, "filt")
    return ConvC


class BlockC:
    array_to_blocks = staticmethod(specs.spec_array_to_blocks)
    blocks_to_array = staticmethod(specs.spec_blocks_to_array)


_CACHE = {}


def load_linop():
    """namespace with the real sigpy/linop.py classes running against callee contracts"""
    util_ns = base_ns()
    src.load_module(UTIL, util_ns)
    util_ns.update(resize=specs.spec_resize, flip=specs.spec_flip, circshift=specs.spec_circshift,
                   downsample=specs.spec_downsample, upsample=specs.spec_upsample)
    util = Mod(util_ns, UTIL)
    conv_ns = base_ns(util=util, signal=None, config=CONFIG)
    src.load_module(CONV, conv_ns, only=["_get_convolve_params"])
    convmod = Mod(conv_ns, CONV)
    ns = base_ns(util=util, block=BlockC, conv=make_conv(convmod), fourier=FourierC, interp=InterpC, wavelet=WaveletC)
    src.load_module(LINOP, ns)
    return Mod(ns, LINOP)


def param_array(name, shape):
    return SArr.input(name, shape, valued=True)


# ----------------------------------------------------------------------------- generic leaf operator for structural classes
def make_generic(linop):
    class Generic(linop.Linop):
        """an arbitrary linear operator that satisfies the class invariant: _apply is the kernel K_name, .H its conjugate transpose"""

        def __init__(self, name, oshape, ishape, transposed=False):
            self.gname, self.transposed = name, transposed
            super().__init__(oshape, ishape)

        def _apply(self, input):
            return kernel_apply("op:" + self.gname, input, self.oshape, len(self.ishape), transposed=self.transposed)

        def _adjoint_linop(self):
            return Generic(self.gname, self.ishape, self.oshape, transposed=not self.transposed)
    return Generic


# ----------------------------------------------------------------------------- obligations for one operator object
def linop_obligations(L, props, with_normal=True):
    """obligations (name, extra_hyps, goal) for a constructed operator L; must be called inside the path's context.
    props: subset of {'C01','C02','C03','C04'}"""
    obs = []
    ish, osh = list(L.ishape), list(L.oshape)
    x = SArr.input("x", ish)
    y = SArr.input("y", osh)
    k = [z3.Int("k%d" % d) for d in range(len(osh))]
    t = [z3.Int("t%d" % d) for d in range(len(ish))]
    if "C02" in props:
        x._protected = "input"          # any write into x (also through a view the operator obtained from it) fails an obligation
    fx = L.apply(x)
    bk, bt = box(k, osh), box(t, ish)
    shape_ok = len(fx.shape) == len(osh)
    if "C03" in props:
        obs.append(("C03:apply-output-has-advertised-shape", [], z3.And(*[core._lift(a) == core._lift(b) for a, b in zip(fx.shape, osh)]) if shape_ok else z3.BoolVal(False)))
    if not shape_ok:
        return obs
    fk = fx.elem(tuple(k))
    if "C02" in props:
        obs.append(("C02:apply-is-a-homogeneous-C-linear-form", [], z3.And(z3.BoolVal(not any(tm.conj for tm in fk.terms if tm.atom == "x")),
                                                                        fk.const.re == 0, fk.const.im == 0)))
    if "C02" in props:
        # the same linear map for an input of real dtype (a real array is a complex array with zero imaginary part): code that
        # branches on input.dtype must not change what the operator does to those values
        xr = SArr.input("x", ish, dtype=snp.FDT)
        try:
            fr = L.apply(xr)
            if len(fr.shape) == len(osh):
                frk = fr.elem(tuple(k))
                tt = tuple(z3.Int("tr!%d" % d) for d in range(len(ish)))
                tot = {}
                for nm_, lf_ in (("real", frk), ("complex", fk)):
                    c1, l1 = coef_of(lf_, "x", tt, False)
                    c2, l2 = coef_of(lf_, "x", tt, True)
                    tot[nm_] = (c1 + c2, [q for q in l1 if not q.conj] + [q for q in l2 if q.conj])
                if not tot["real"][1] and not tot["complex"][1]:
                    a_, b_ = tot["real"][0], tot["complex"][0]
                    obs.append(("C02:real-dtype-input-gives-the-same-map(on real values)", bk + box(tt, ish), z3.And(a_.re == b_.re, a_.im == b_.im)))
        except (snp.ModelledError, ValueError, RuntimeError, snp.NonLinear):
            obs.append(("C02:real-dtype-input-is-accepted", [], z3.BoolVal(False)))
    if "C02" in props or "C03" in props:
        for (atom, cj), rank in snp.lf_atoms(fk).items():
            if atom.startswith("uninit!"):
                tu = tuple(z3.Int("u!%d" % d) for d in range(rank))
                cu, lu = coef_of(fk, atom, tu, cj)
                obs.append(("%s:output-independent-of-uninitialised-memory" % sorted(props)[0], bk,
                            z3.And(cu.re == 0, cu.im == 0) if not lu else z3.BoolVal(False)))
    if "C01" in props or "C04" in props:
        H = L.H
    if "C01" in props:
        obs.append(("C01:adjoint-shapes-swapped", [], z3.And(z3.BoolVal(len(H.ishape) == len(osh) and len(H.oshape) == len(ish)),
                                                             *[core._lift(a) == core._lift(b) for a, b in zip(list(H.ishape) + list(H.oshape), osh + ish)])))
        gy = H.apply(y)
        if len(gy.shape) == len(ish):
            gt = gy.elem(tuple(t))
            for sfx, g in adjoint_goals(fk, gt, "x", "y", k, t):
                obs.append(("C01:<Ax,y>==<x,AHy>[%s]" % sfx, bk + bt, g))
        else:
            obs.append(("C01:adjoint-output-rank", [], z3.BoolVal(False)))
        HH = H.H
        hx = HH.apply(x)
        if len(hx.shape) == len(osh):
            for sfx, g in lf_equal_goals(hx.elem(tuple(k)), fk):
                obs.append(("C01:H.H-acts-like-the-operator[%s]" % sfx, bk, g))
        else:
            obs.append(("C01:H.H-output-rank", [], z3.BoolVal(False)))
    if "C04" in props and with_normal:
        N = L.N
        nx = N.apply(x)
        hax = H.apply(fx)
        if len(nx.shape) == len(ish) and len(hax.shape) == len(ish):
            for sfx, g in lf_equal_goals(nx.elem(tuple(t)), hax.elem(tuple(t)), tag="u"):
                obs.append(("C04:N==H*A[%s]" % sfx, bt, g))
        else:
            obs.append(("C04:N-output-rank", [], z3.BoolVal(False)))
    return obs


def adjoint_goals(fwd, adj, xname, yname, k, t):
    """coefficient of x[t] in (A x)[k]  ==  conj( coefficient of y[k] in (A^H y)[t] )"""
    ca, la = coef_of(fwd, xname, t)
    cb, lb = coef_of(adj, yname, k)
    out = []
    if la or lb:
        # summations that the one-point rule cannot remove: match them structurally (same number of bound variables,
        # renamed in creation order; guards and coefficients must agree pointwise, with the conjugate on the adjoint side)
        out += _match_leftover(la, lb, xname, yname, k, t)
    out += [("re:" + s, g) for s, g in snp._split_eq(ca.re, cb.re)]
    out += [("im:" + s, g) for s, g in snp._split_eq(ca.im, z3.simplify(-cb.im))]
    return out or [("trivial", z3.BoolVal(True))]


def _match_leftover(la, lb, xname, yname, k, t):
    return snp.match_leftover(la, lb, t, k, conj_b=True)


# ----------------------------------------------------------------------------- instance table
def _pos(*xs):
    for x in xs:
        core.assume(x >= 1)


def _shape(prefix, r):
    s = ints(prefix, r)
    _pos(*s)
    return s


def _cplx(name):
    return C(z3.Real(name + ".re"), z3.Real(name + ".im"))


def build(lin, cls, v):
    """construct one operator of class `cls`, variant `v` (a dict), with symbolic parameters; runs inside a path"""
    G = make_generic(lin)
    r = v.get("rank", 2)
    if cls == "Identity":
        return lin.Identity(_shape("n", r))
    if cls == "Reshape":
        n = _shape("n", r)
        kind = v["kind"]
        if kind == "add-unit":
            return lin.Reshape([1] + n, n)
        if kind == "drop-unit":
            return lin.Reshape(n, [1] + n)
        if kind == "merge":
            return lin.Reshape([snp.prod(n)], n)
        if kind == "split":
            return lin.Reshape(n, [snp.prod(n)])
    if cls == "Transpose":
        return lin.Transpose(_shape("n", r), axes=v["axes"])
    if cls == "Resize":
        ri, ro = v["ri"], v["ro"]
        n, m = _shape("n", ri), _shape("m", ro)
        si = so = None
        if v.get("shifts"):
            rr = max(ri, ro)
            si, so = ints("si", rr), ints("so", rr)
            for s_, e in zip(si, [1] * (rr - ri) + n):
                core.assume(core.And(s_ >= 0, s_ < e))
            for s_, e in zip(so, [1] * (rr - ro) + m):
                core.assume(core.And(s_ >= 0, s_ < e))
        return lin.Resize(m, n, ishift=si, oshift=so)
    if cls == "Flip":
        return lin.Flip(_shape("n", r), axes=v["axes"])
    if cls in ("Downsample", "Upsample"):
        n = _shape("n", r)
        f = ints("f", r)
        _pos(*f)
        s = None
        if v.get("shift"):
            s = ints("s", r)
            for a, b in zip(s, n):
                core.assume(core.And(a >= 0, a < b))
        return getattr(lin, cls)(n, f, shift=s)
    if cls == "Circshift":
        n = _shape("n", r)
        ax = v["axes"]
        return lin.Circshift(n, ints("s", r if ax is None else len(ax)), axes=ax)
    if cls in ("Sum", "Tile"):
        return getattr(lin, cls)(_shape("n", r), v["axes"])
    if cls in ("Slice", "Embed"):
        n = _shape("n", r)
        kind = v["kind"]
        if kind == "range":
            a, b = Sym(z3.Int("a")), Sym(z3.Int("b"))
            core.assume(core.And(a >= 0, a < b, b <= n[0]))
            idx = slice(a, b)
        elif kind == "tuple":
            a, b = Sym(z3.Int("a")), Sym(z3.Int("b"))
            core.assume(core.And(a >= 0, a < b, b <= n[-1]))
            idx = tuple([slice(None)] * (r - 1) + [slice(a, b)])
        elif kind == "step":
            idx = slice(None, None, 2)
        elif kind == "int":
            a = Sym(z3.Int("a"))
            core.assume(core.And(a >= 0, a < n[0]))
            idx = (a,) + (slice(None),) * (r - 1)
        return getattr(lin, cls)(n, idx)
    if cls == "Multiply":
        n = _shape("n", r)
        kind = v["kind"]
        if kind == "scalar":
            return lin.Multiply(n, _cplx("a"), conj=v.get("conj", False))
        if kind == "same":
            return lin.Multiply(n, param_array("mult", n), conj=v.get("conj", False))
        if kind == "free":
            v["may_reject"] = True
            m = _shape("m", v.get("mrank", r))
            return lin.Multiply(n, param_array("mult", m), conj=v.get("conj", False))
    if cls in ("MatMul", "RightMatMul"):
        v["may_reject"] = True
        n = _shape("n", r)
        m = _shape("m", v.get("mrank", 2))
        return getattr(lin, cls)(n, param_array("mat", m), adjoint=v.get("adjoint", False))
    if cls in ("ArrayToBlocks", "BlocksToArray"):
        D = v["D"]
        N, B, St = ints("N", D), ints("B", D), ints("S", D)
        bt = _shape("bt", v.get("nbatch", 0))
        for nn, b, s in zip(N, B, St):
            core.assume(core.And(b >= 1, s >= 1, nn >= b))
        if v.get("tiling"):
            for nn, b, s in zip(N, B, St):
                q = Sym(z3.Int("tiles%s" % nn.t))
                core.assume(core.And(s == b, q >= 1, nn == q * b))
        return getattr(lin, cls)(bt + N, B, St)
    if cls in ("FFT", "IFFT"):
        return getattr(lin, cls)(_shape("n", r), axes=v["axes"], center=v.get("center", True))
    if cls in ("Interpolate", "Gridding", "NUFFT", "NUFFTAdjoint"):
        nd = v["ndim"]
        g = _shape("g", nd)
        bt = _shape("bt", v.get("nbatch", 0))
        npts = _shape("p", v.get("pts_rank", 1))
        coord = param_array("coord", npts + [nd])
        if cls in ("Interpolate", "Gridding"):
            w, prm = Sym(z3.Real("width")), Sym(z3.Real("param"))
            core.assume(w > 0)
            return getattr(lin, cls)(bt + g, coord, kernel=v.get("kernel", "kaiser_bessel"), width=w, param=prm)
        os_, w = Sym(z3.Real("oversamp")), Sym(z3.Real("width"))
        core.assume(core.And(os_ >= 1, w > 0))
        if cls == "NUFFT":
            return lin.NUFFT(bt + g, coord, oversamp=os_, width=w, toeplitz=v.get("toeplitz", False))
        return lin.NUFFTAdjoint(bt + g, coord, oversamp=os_, width=w)
    if cls in ("Wavelet", "InverseWavelet"):
        return getattr(lin, cls)(_shape("n", r), axes=v.get("axes"), wave_name=v.get("wave", "db4"), level=v.get("level"))
    if cls in ("ConvolveData", "ConvolveDataAdjoint", "ConvolveFilter", "ConvolveFilterAdjoint"):
        D = v["D"]
        mc = v.get("mc", False)
        m_, n_ = _shape("m", D), _shape("f", D)
        mode = v.get("mode", "full")
        if mode == "valid":
            for a, b in zip(m_, n_):
                core.assume(a >= b)
        strides = None
        if v.get("strides"):
            strides = ints("st", D)
            _pos(*strides)
        if mc:
            ci, co = _shape("c", 2)
            dshape, fshape = [ci] + m_, [co, ci] + n_
        else:
            dshape, fshape = m_, n_
        bt = _shape("bt", v.get("nbatch", 0))
        dshape = bt + dshape
        if cls.startswith("ConvolveData"):
            return getattr(lin, cls)(dshape, param_array("filt", fshape), mode=mode, strides=strides, multi_channel=mc)
        return getattr(lin, cls)(fshape, param_array("data", dshape), mode=mode, strides=strides, multi_channel=mc)
    # ---- structural classes over generic operands
    if cls == "Conj":
        return lin.Conj(G("A", _shape("o", r), _shape("i", r)))
    if cls == "Compose":
        k = v["k"]
        shapes = [_shape("d%d_" % j, 1) for j in range(k + 1)]
        return lin.Compose([G("A%d" % j, shapes[j], shapes[j + 1]) for j in range(k)])
    if cls == "Add":
        if v.get("views"):
            # summands that return VIEWS of their input (Reshape / Transpose): accumulating in place would write into the input
            n = _shape("n", 2)
            if v["views"] == "reshape":
                R = lin.Reshape([snp.prod(n)], n)
                return lin.Add([R, _cplx("a") * R])
            return lin.Add([lin.Transpose(n, axes=(1, 0)), G("A0", [n[1], n[0]], n)])
        o, i = _shape("o", r), _shape("i", r)
        return lin.Add([G("A%d" % j, o, i) for j in range(v["k"])])
    if cls in ("Hstack", "Vstack", "Diag"):
        k, axis = v["k"], v["axis"]
        rr = v.get("rank", 1)
        common = _shape("c", rr)
        ops = []
        for j in range(k):
            ish, osh = list(common), list(common)
            ext = Sym(z3.Int("e%d" % j))
            ext2 = Sym(z3.Int("g%d" % j))
            _pos(ext, ext2)
            ax = 0 if axis is None else axis % rr
            if cls == "Hstack":
                ish[ax] = ext
                osh = _shape("o", rr) if axis is None else osh
                if axis is None:
                    ish = _shape("i%d_" % j, rr)
                ops.append(G("A%d" % j, _shape("o", rr), ish))
            elif cls == "Vstack":
                osh[ax] = ext
                if axis is None:
                    osh = _shape("o%d_" % j, rr)
                ops.append(G("A%d" % j, osh, _shape("i", rr)))
            else:
                ish[ax] = ext
                osh[ax] = ext2
                if axis is None:
                    ish, osh = _shape("i%d_" % j, rr), _shape("o%d_" % j, rr)
                ops.append(G("A%d" % j, osh, ish))
        if cls == "Diag":
            return lin.Diag(ops, oaxis=axis, iaxis=axis)
        return getattr(lin, cls)(ops, axis=axis)
    if cls == "overload":
        o, i, m = _shape("o", 1), _shape("i", 1), _shape("m", 1)
        A, B, B2 = G("A", o, m), G("B", m, i), G("B2", o, m)
        kind = v["kind"]
        if kind == "A*B":
            return A * B
        if kind == "a*A":
            return _cplx("a") * A
        if kind == "A*a":
            return A * _cplx("a")
        if kind == "A+B":
            return A + B2
        if kind == "A-B":
            return A - B2
        if kind == "-A":
            return -A
        if kind == "(A*B).H*(a*A)":
            return (A * B).H * (_cplx("a") * A)
        B3 = G("B3", o, i)
        if kind == "(a*A).H*(b*B3)":
            return (_cplx("a") * A).H * (_cplx("b") * B3)
        if kind == "(a*A).H*(a*A)":
            return (_cplx("a") * A).H * (_cplx("a") * A)
        if kind == "(a*A).H*b":
            return (_cplx("a") * A).H * _cplx("b")
    if cls == "DiagMixed":
        # operands [n_j] -> [p_j, q_j]: only the stacked axes may differ between operands
        k, iax, oax = v["k"], v["iaxis"], v["oaxis"]
        common = _shape("c", 2)
        ops = []
        for j in range(k):
            ish = [Sym(z3.Int("e%d" % j))]
            osh = list(common)
            osh[oax % 2] = Sym(z3.Int("g%d" % j))
            _pos(*(ish + osh))
            ops.append(G("A%d" % j, osh, ish))
        return lin.Diag(ops, oaxis=oax, iaxis=iax)
    if cls == "FiniteDifference":
        return lin.FiniteDifference(_shape("n", r), axes=v.get("axes"))
    raise KeyError((cls, v))


def variants(tier):
    T = tier == "thorough"
    out = []

    def add(cls, **v):
        out.append((cls, v))
    for r in (1, 2):
        add("Identity", rank=r)
    for kind in ("add-unit", "drop-unit", "merge", "split"):
        add("Reshape", rank=2, kind=kind)
    for ax in (None, (1, 0), (0, 1), (-1, 0)):
        add("Transpose", rank=2, axes=ax)
    for ax in ((2, 0, 1), (-1, 0, 1), (1, 2, 0), (-2, -1, -3)):
        add("Transpose", rank=3, axes=ax)
    for ri, ro in ((1, 1), (2, 2), (1, 2), (2, 1)):
        add("Resize", ri=ri, ro=ro, shifts=False)
        if ri == ro == 1 or T:
            add("Resize", ri=ri, ro=ro, shifts=True)
    for ax in (None, (0,), (-1,), (0, 1)):
        add("Flip", rank=2, axes=ax)
        add("Circshift", rank=2, axes=ax)
    for cls in ("Downsample", "Upsample"):
        for r in (1, 2):
            for sh in (False, True):
                add(cls, rank=r, shift=sh)
    for cls in ("Sum", "Tile"):
        for ax in ((0,), (-1,), (0, 1), (1,)):
            add(cls, rank=2, axes=ax)
        add(cls, rank=3, axes=(1,))
        add(cls, rank=3, axes=(0, -1))
    for cls in ("Slice", "Embed"):
        for kind in ("range", "tuple", "step", "int"):
            add(cls, rank=2, kind=kind)
    for cj in (False, True):
        add("Multiply", rank=2, kind="scalar", conj=cj)
        add("Multiply", rank=2, kind="same", conj=cj)
        add("Multiply", rank=1, kind="free", mrank=1, conj=cj)
        add("Multiply", rank=2, kind="free", mrank=1, conj=cj)
        add("Multiply", rank=1, kind="free", mrank=2, conj=cj)
        if T:
            add("Multiply", rank=2, kind="free", mrank=2, conj=cj)
    for cls in ("MatMul", "RightMatMul"):
        for adj in (False, True):
            add(cls, rank=2, mrank=2, adjoint=adj)
            add(cls, rank=3, mrank=2, adjoint=adj)
            add(cls, rank=2, mrank=3, adjoint=adj)
            if T:
                add(cls, rank=3, mrank=3, adjoint=adj)
    for cls in ("ArrayToBlocks", "BlocksToArray"):
        for D in (1, 2):
            add(cls, D=D, nbatch=0)
            add(cls, D=D, nbatch=0, tiling=True)
        add(cls, D=1, nbatch=1)
    for cls in ("FFT", "IFFT"):
        for ax in (None, (0,), (-1,), (-2, -1)):
            for ctr in (True, False):
                add(cls, rank=2, axes=ax, center=ctr)
    for cls in ("Interpolate", "Gridding", "NUFFT", "NUFFTAdjoint"):
        for nd in (1, 2):
            add(cls, ndim=nd, nbatch=0)
            add(cls, ndim=nd, nbatch=1)
        add(cls, ndim=2, nbatch=0, pts_rank=2)
    add("NUFFT", ndim=1, nbatch=0, toeplitz=True)
    add("NUFFT", ndim=2, nbatch=1, toeplitz=True)
    for cls in ("Wavelet", "InverseWavelet"):
        add(cls, rank=2, axes=None, level=None)
        add(cls, rank=2, axes=(-1,), level=2, wave="haar")
    for cls in ("ConvolveData", "ConvolveDataAdjoint", "ConvolveFilter", "ConvolveFilterAdjoint"):
        for mode in ("full", "valid"):
            add(cls, D=1, mode=mode)
            add(cls, D=1, mode=mode, strides=True)
            add(cls, D=1, mode=mode, mc=True)
        add(cls, D=2, mode="full", mc=True, strides=True, nbatch=1 if cls.startswith("ConvolveData") else 0)
    add("Conj", rank=1)
    for k in (1, 2, 3):
        add("Compose", k=k)
        add("Add", k=k, rank=1)
    add("Add", k=2, rank=2, views="reshape")
    add("Add", k=2, rank=2, views="transpose")
    for cls in ("Hstack", "Vstack", "Diag"):
        for k in (1, 2, 3):
            if cls == "Diag" and k == 3 and not T:
                continue        # 2^6 unit-extent case splits: thorough tier only
            add(cls, k=k, axis=None, rank=1)
            add(cls, k=k, axis=0, rank=1)
            add(cls, k=k, axis=-1, rank=1)
        add(cls, k=2, axis=1, rank=2)
        add(cls, k=2, axis=-2, rank=2)
        # axis=None on rank-2 operands (flattened stacking): the summation matcher cannot relate the flattened index to the
        # operands' multi-indices (engine limit) -> bounded native probe only, see NOT_DECIDED of C01/C03/C04
    for kind in ("A*B", "a*A", "A*a", "A+B", "A-B", "-A", "(A*B).H*(a*A)", "(a*A).H*(b*B3)", "(a*A).H*(a*A)", "(a*A).H*b"):
        add("overload", kind=kind)
    # Diag over operands whose input and output ranks differ, with different input / output stacking axes
    for oax in (1, -1, 0):
        add("DiagMixed", k=2, iaxis=0, oaxis=oax)
    add("DiagMixed", k=2, iaxis=-1, oaxis=-2)
    add("FiniteDifference", rank=1)
    add("FiniteDifference", rank=2)
    add("FiniteDifference", rank=2, axes=(-1,))
    return out


def vlabel(v):
    return ",".join("%s=%s" % (k, str(x).replace(" ", "")) for k, x in sorted(v.items()))


def job_linop(prop, cls, v, timeout_ms):
    """all obligations of property `prop` for one operator class/variant"""
    lin = load_linop()
    s = src.Source.get(LINOP)
    rec = s.record(cls) if cls in s.index else s.record("Linop")

    def run():
        L = build(lin, cls, v)
        return L
    results = explore(run, max_paths=200)
    inst = "%s(%s)" % (cls, vlabel(v))

    def post(r):
        if r.kind != "return":
            if v.get("may_reject"):
                return []          # incompatible parameters on this path: rejection is the contract (C03)
            return [("%s:constructs-without-error" % prop, [], z3.BoolVal(False))]
        try:
            return linop_obligations(r.value, {prop})
        except snp.NonLinear as e:
            return [("%s:apply-is-C-linear-in-its-input(%s)" % (prop, str(e)[:60]), [], z3.BoolVal(False))]
        except (snp.ModelledError, ValueError, RuntimeError) as e:
            c = e.__cause__
            if isinstance(c, snp.NonLinear):
                return [("%s:apply-is-C-linear-in-its-input(%s)" % (prop, str(c)[:60]), [], z3.BoolVal(False))]
            return [("%s:apply-without-error(%s)" % (prop, type(e).__name__), [], z3.BoolVal(False))]
    obs, covers = path_obligations("%s/linop/%s" % (prop, inst), results, post, instance=inst, fn_record=rec)
    return check_obligations(obs, timeout_ms) + covers


def linop_jobs(prop, tier, module):
    return [Job(module, "job_linop", prop=prop, cls=cls, v=v) for cls, v in variants(tier)]


def linop_replay_request(prop, res):
    """concrete operator from the counter-model (integers by their symbolic names), checked natively"""
    import ast as _ast
    j = res["job"]
    seg = j[j.index("(") + 1:-1]
    # job label: cls=...,prop=...,v={...}
    cls = seg.split("cls=")[1].split(",")[0]
    v = _ast.literal_eval(seg[seg.index("v=") + 2:])
    model = {}
    for k, val in (res.get("model") or {}).items():
        try:
            model[k] = int(val)
        except Exception:
            try:
                from fractions import Fraction
                model[k] = float(Fraction(val.replace("?", "")))
            except Exception:
                pass
    # keep extents small and valid
    for k in list(model):
        if isinstance(model[k], int) and (model[k] > 9 or model[k] < -9):
            model[k] = max(-9, min(9, model[k]))
    return dict(fn="linop.check", args=dict(cls=cls, v=v, model=model, props=[prop], may_reject=bool(v.get("may_reject"))))
