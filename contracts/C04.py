"""C04 - the normal operator A.N is A^H A (see contracts/linops.py): every class's _normal_linop (default H*A and every override)
is compared coefficient-wise with H(A(x))."""
from .common import *  # noqa: F401,F403
from . import linops
from .linops import job_linop  # noqa: F401

ASSUMPTIONS = ["callee contracts as in C01; for FFT/IFFT the orthonormal DFT kernel is unitary (numpy contract) - stated as the hypothesis "
               "sum_k conj(K(k,t)) K(k,t') = [t = t'] is NOT available to the solver, so FFT/IFFT shortcuts are decided by the bounded probe only",
               "extents >= 1; floats as reals"]
TRUSTED = ["linear-form domain and one-point rule of pyvc/snp.py"]
BOUNDS = {"rank": "<= 3", "operands": "<= 3"}
NOT_DECIDED = ["NUFFT(toeplitz=True): equality with A^H A holds only within the interpolation accuracy (numerical analysis); bounded probe with tolerance",
               "FFT/IFFT._normal_linop = Identity rests on unitarity of numpy's orthonormal FFT (assumed); bounded probe"]
SKIP = {"FFT", "IFFT"}


def functions():
    s = src.Source.get(linops.LINOP)
    return [s.record(q) for q in s.index if q.endswith("._normal_linop") or q == "Linop.N"]


def jobs(tier):
    js = []
    for cls, v in linops.variants(tier):
        if cls in SKIP or v.get("toeplitz"):
            continue
        js.append(Job("contracts.C04", "job_linop", prop="C04", cls=cls, v=v))
    return js


def replay_request(res):
    return linops.linop_replay_request("C04", res)


def probes(tier, seed):
    res = native("probe.py", dict(prop="C04", tier=tier, seed=seed), timeout=1500)
    if isinstance(res, dict) and res.get("error"):
        return [dict(name="native-probe", error=res["error"], cases=0)]
    return res
