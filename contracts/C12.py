"""C12 - conjugate gradient.  Class invariant of sigpy.alg.ConjugateGradient proved inductively (init + preservation)
by running the real __init__/_update/_done on abstract vectors (Gram domain)."""
import z3
from .common import *  # noqa: F401,F403
from .galg import load_alg, ALG, UTIL
from pyvc import gram

ASSUMPTIONS = [
    "A and P are self-adjoint linear operators on a real inner-product space (realification of C^n): <Au,v> = <u,Av>",
    "A x* = b is solvable (b = A x*), P is positive semidefinite (<v,Pv> >= 0 at the vectors that occur)",
    "update() is called while not done(): rzold > 0 (tol >= 0)",
    "xp.vdot / xp.real(vdot) is the real inner product; xp.linalg.norm its norm (assumed numpy contract)",
    "global conjugacy is proved by induction over the real _update (G1/G2: step for an arbitrary earlier index j <= k-2, "
    "L2/L3: j = k-1); the induction principle itself (for all k, by the base case job_init and this step) is trusted",
    "cited, not proved: mutually conjugate directions spanning the Krylov space imply Krylov optimality of the k-th "
    "iterate and termination within n updates (Hestenes-Stiefel)",
]
TRUSTED = ["Gram-matrix abstraction of inner products (pyvc/gram.py)"]
BOUNDS = {}
NOT_DECIDED = ["Krylov optimality and n-step termination are cited consequences of the proved (local and global) conjugacy invariants, not re-proved"]


def functions():
    return record(ALG, "ConjugateGradient.__init__", "ConjugateGradient._update", "ConjugateGradient._done",
                  "Alg.__init__", "Alg.update", "Alg.done") + record(UTIL, "axpy", "xpay")


def _mk(with_P):
    sp = gram.Space()
    A = sp.op("A")
    if with_P == "returns-its-argument":
        # a preconditioner that hands back the very array it is given (Identity linop, lambda r: r): P = I mathematically,
        # and every in-place update of the residual is then visible through whatever still refers to P(r)
        P = lambda v: v
    else:
        P = sp.op("P") if with_P else None
    return sp, A, P


def _energy(sp, A, xs, x):
    e = xs - x
    return sp.ip(e, A(e))


def job_init(with_P, timeout_ms):
    rec = record(ALG, "ConjugateGradient.__init__")[0]
    alg = load_alg()
    st = {}

    def run():
        sp, A, P = _mk(with_P)
        x, xs = sp.base("x"), sp.base("xs")
        b = A(xs)
        mi = Sym(z3.Int("max_iter"))
        tol = Sym(z3.Real("tol"))
        core.assume(tol >= 0)
        core.assume(mi >= 0)
        r0 = b - A(x)
        core.assume(sp.ip(r0, P(r0) if P else r0) >= 0)      # P positive semidefinite
        cg = alg.ConjugateGradient(A, b, x, P=P, max_iter=mi, tol=tol)
        return cg, x, b, sp, A, P, mi
    results = explore(run)
    inst = "P=%s" % with_P

    def post(r):
        if r.kind != "return":
            return [("no-exception", [], z3.BoolVal(False))]
        cg, x, b, sp, A, P, mi = r.value
        z = P(cg.r) if P else cg.r
        rz = sp.ip(cg.r, z)
        obs = [("I1:r==b-Ax", [], cg.r.same_vector(b - A(cg.x))),
               ("I2:rzold==<r,Pr>", [], core._lift(cg.rzold) == rz.t),
               ("I2:resid==sqrt(rzold)", [], z3.And(core._lift(cg.resid) >= 0, core._lift(cg.resid) * core._lift(cg.resid) == rz.t)),
               ("I3:p==z", [], cg.p.same_vector(z)),
               ("F:x-is-the-callers-array", [], z3.BoolVal(cg.x is x)),
               ("iter==0", [], z3.BoolVal(cg.iter == 0)),
               ("flag-clear", [], z3.BoolVal(cg.not_positive_definite is False)),
               ("alias:p-is-not-r-when-more-than-one-update", [core._lift(mi) > 1], z3.BoolVal(cg.p is not cg.r)),
               ("alias:x-distinct-from-r-and-p", [], z3.BoolVal(cg.x is not cg.r and cg.x is not cg.p))]
        return obs
    obs, covers = path_obligations("C12/CG.__init__/%s" % inst, results, post, instance=inst, fn_record=rec)
    return check_obligations(obs, timeout_ms) + covers


def _generic_state(alg, with_P, last):
    """a ConjugateGradient object in an arbitrary state satisfying the class invariant"""
    sp, A, P = _mk(with_P)
    x, xs, pprev = sp.base("x"), sp.base("xs"), sp.base("pp")
    b = A(xs)
    r = b - A(x)
    z = P(r) if P else r
    bprev = Sym(z3.Real("beta_prev"))
    p = z + pprev * bprev                      # I3
    rz = sp.ip(r, z)                           # I2
    core.assume(rz > 0)                        # not done(), P definite on r
    core.assume(sp.ip(r, pprev) == 0)          # L1
    core.assume(sp.ip(p, A(pprev)) == 0)       # L2
    mi, it = Sym(z3.Int("max_iter")), Sym(z3.Int("iter"))
    core.assume(core.And(it >= 0, it < mi))
    if last:
        core.assume(it >= mi - 1)
    else:
        core.assume(it < mi - 1)
    tol = Sym(z3.Real("tol"))
    core.assume(tol >= 0)
    cg = object.__new__(alg.ConjugateGradient)
    cg.A, cg.b, cg.P, cg.x, cg.tol = A, b, P, x, tol
    cg.device = gram.GDEV
    cg.r, cg.p = r, p
    cg.not_positive_definite = False
    cg.rzold = rz
    cg.resid = core.sym_sqrt(rz)
    cg.max_iter, cg.iter = mi, it
    return cg, dict(sp=sp, A=A, P=P, x0=x, x_old=x.copy(), xs=xs, b=b, r_old=r.copy(), p_old=p.copy(), rz_old=rz, it=it, mi=mi)


def _global_conjugacy(sp, A, P, st, cg):
    """Induction step of GLOBAL conjugacy (Hestenes-Stiefel), over the real update: ghost state = an arbitrary earlier
    index j <= k-2 of the history, described by the relations the contract of _update establishes at every step
    (z_j = P r_j, p_j = z_j + beta_{j-1} p_{j-1}, r_{j+1} = r_j - alpha_j A p_j, p_{j+1} = z_{j+1} + beta_j p_j; j = 0 is
    beta_{j-1} = 0).  Induction hypothesis H(k): r_k is P-orthogonal to r_j, r_{j+1} and p_k is A-conjugate to
    p_{j-1}, p_j, p_{j+1}.  Goals: the same for the r, p that the real _update leaves behind.  (The remaining index
    j = k-1 is L2/L3 above.)  All scalars are symbolic; alpha_j != 0 because update() only runs while rz > 0."""
    Pz = (lambda v: P(v)) if P else (lambda v: v)
    rj, pjm = sp.base("rj"), sp.base("pjm")
    aj, bjm, bj = Sym(z3.Real("alpha_j")), Sym(z3.Real("beta_jm1")), Sym(z3.Real("beta_j"))
    zj = Pz(rj)
    pj = zj + pjm * bjm
    rj1 = rj - A(pj) * aj
    zj1 = Pz(rj1)
    pj1 = zj1 + pj * bj
    r, p = st["r_old"], st["p_old"]
    ih = [sp.ip(r, zj).t == 0, sp.ip(r, zj1).t == 0, sp.ip(p, A(pjm)).t == 0, sp.ip(p, A(pj)).t == 0,
          sp.ip(p, A(pj1)).t == 0, aj.t != 0]
    g1, g1b = sp.ip(cg.r, zj).t == 0, sp.ip(cg.r, zj1).t == 0
    X = sp.ip(cg.p, A(pj))
    return [("G1:<r_new,P r_j>==0-for-all-earlier-j", ih, g1),
            ("G1:<r_new,P r_j+1>==0-for-all-earlier-j", ih, g1b),
            ("G2a:alpha_j<p_new,A p_j>==<P r_new,r_j>-<P r_new,r_j+1>", ih,
             (aj * X).t == sp.ip(Pz(cg.r), rj).t - sp.ip(Pz(cg.r), rj1).t + (aj * Sym(core._lift(cg.rzold)) / st["rz_old"] * sp.ip(p, A(pj))).t),
            ("G2:<p_new,A p_j>==0-for-all-earlier-j", ih + [g1, g1b,
             (aj * X).t == sp.ip(Pz(cg.r), rj).t - sp.ip(Pz(cg.r), rj1).t + (aj * Sym(core._lift(cg.rzold)) / st["rz_old"] * sp.ip(p, A(pj))).t],
             X.t == 0)]


def job_update(with_P, last, timeout_ms):
    rec = record(ALG, "ConjugateGradient._update")[0]
    alg = load_alg()

    def run():
        cg, st = _generic_state(alg, with_P, last)
        sp, A, P = st["sp"], st["A"], st["P"]
        # positive semidefiniteness of P at the residual that the update produces (precondition of the property)
        pAp = sp.ip(st["p_old"], A(st["p_old"]))
        st["pAp"] = pAp
        cg.update()
        done = cg.done()
        return cg, st, done
    results = explore(run)
    inst = "P=%s,last=%s" % (with_P, last)

    def post(r):
        if r.kind != "return":
            return [("no-exception", [], z3.BoolVal(False))]
        cg, st, done = r.value
        sp, A, P = st["sp"], st["A"], st["P"]
        pAp, rz = st["pAp"], st["rz_old"]
        obs = [("F:x-is-the-callers-array", [], z3.BoolVal(cg.x is st["x0"])),
               ("counter:iter+1", [], core._lift(cg.iter) == st["it"].t + 1)]
        if cg.not_positive_definite is True:
            obs += [("B:breakdown-only-if-pAp<=0", [], pAp.t <= 0),
                    ("B:x-unchanged", [], cg.x.same_vector(st["x_old"])),
                    ("B:r,p-unchanged", [], z3.And(cg.r.same_vector(st["r_old"]), cg.p.same_vector(st["p_old"]))),
                    ("B:done", [], as_bool(done))]
            return obs
        alpha = rz / pAp
        E0, E1 = _energy(sp, A, st["xs"], st["x_old"]), _energy(sp, A, st["xs"], cg.x)
        obs += [("B:no-breakdown-only-if-pAp>0", [], pAp.t > 0),
                ("X:x+=alpha*p", [], cg.x.same_vector(st["x_old"] + st["p_old"] * alpha)),
                ("E:A-norm-error-decreases-by-rz^2/pAp", [], z3.And(E1.t == E0.t - (rz * rz / pAp).t, E1.t <= E0.t))]
        if last:
            return obs
        z1 = P(cg.r) if P else cg.r
        rz1 = sp.ip(cg.r, z1)
        beta = Sym(core._lift(cg.rzold)) / rz
        psd = [rz1.t >= 0]           # P positive semidefinite at the new residual
        obs += [("@fact", [], rz1.t >= 0),
                ("I1:r==b-Ax", [], cg.r.same_vector(st["b"] - A(cg.x))),
                ("I2:rzold==<r,Pr>", [], core._lift(cg.rzold) == rz1.t),
                ("I2:resid==sqrt(rzold)", psd, z3.And(core._lift(cg.resid) >= 0, core._lift(cg.resid) * core._lift(cg.resid) == rz1.t)),
                ("I3:p==z+beta*p_old,beta==rz_new/rz_old", [], cg.p.same_vector(z1 + st["p_old"] * beta)),
                ("L1:<r_new,p_old>==0", [], sp.ip(cg.r, st["p_old"]).t == 0),
                ("L2:<p_new,A p_old>==0", [], sp.ip(cg.p, A(st["p_old"])).t == 0),
                ("L3:<r_new,z_old>==0", [], sp.ip(cg.r, (P(st["r_old"]) if P else st["r_old"])).t == 0),
                ("alias:r,p,x-distinct", [], z3.BoolVal(cg.r is not cg.p and cg.x is not cg.r and cg.x is not cg.p))]
        obs += _global_conjugacy(sp, A, P, st, cg)
        return obs
    obs, covers = path_obligations("C12/CG._update/%s" % inst, results, post, instance=inst, fn_record=rec)
    # side obligation sqrt(rznew) >= 0 needs P psd at the new residual: supply it as a hypothesis instance
    return check_obligations(obs, timeout_ms) + covers


def probes(tier, seed):
    res = native("probe.py", dict(prop="C12", tier=tier, seed=seed), timeout=1500)
    if isinstance(res, dict) and res.get("error"):
        return [dict(name="native-probe", error=res["error"], cases=0)]
    return res


def replay_request(res):
    """a Gram-domain counter-model has no direct concretisation: the replay runs the real solver on a fixed family of
    dense SPD instances and checks the property's clauses there"""
    import sys
    sys.path.insert(0, ROOT + "/native")
    import probe_C12
    return dict(fn="multi", args=dict(cases=list(probe_C12.cases("quick", 0))))


def jobs(tier):
    M = "contracts.C12"
    js = []
    js.append(Job(M, "job_init", with_P="returns-its-argument"))
    for last in (False, True):
        js.append(Job(M, "job_update", with_P="returns-its-argument", last=last))
    for wp in (False, True):
        js.append(Job(M, "job_init", with_P=wp))
        for last in (False, True):
            js.append(Job(M, "job_update", with_P=wp, last=last))
    return js
