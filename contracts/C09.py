"""C09 - resize / flip / circshift / downsample / upsample / array_to_blocks / blocks_to_array move exactly
the documented elements.  Contracts on the real functions of sigpy/util.py and sigpy/block.py."""
import itertools
import z3
from .common import *  # noqa: F401,F403
from . import specs
from pyvc.snp import SArr, lf_equal_goal, lf_equal_goals

UTIL = "sigpy/util.py"
BLOCK = "sigpy/block.py"

ASSUMPTIONS = [
    "numpy basic slicing get/set (start/stop clipping, negative steps, shape-mismatch raises) as modelled in pyvc/snp.py",
    "numpy reshape that only inserts/drops unit axes is an index relabelling; general reshape is the row-major flat-index bijection",
    "numpy.roll(a, s, axis): out[k] = a[(k - s) mod n]",
    "numpy.zeros returns a fresh zero array",
    "numba nopython semantics equal Python semantics on the loop nests of block.py (A-numba)",
    "loop-nest summarisation rule (DESIGN 4.2): induction on the iteration count, trusted",
    "array extents >= 1; explicit resize shifts satisfy 0 <= shift < extent; downsample/upsample factors >= 1 and 0 <= shift < extent",
]
TRUSTED = ["assumed numpy contracts in pyvc/snp.py (probed natively by native/probe_C09.py)"]
BOUNDS = {"quick": {"rank": "1..3 (resize: input/output rank pairs up to 3)", "block dims": "1..3, one batch axis"},
          "thorough": {"rank": "1..3", "block dims": "1..3, 0..1 batch axes (two batch axes are flattened through a div/mod pair the summation matcher cannot relate: native probe only)"}}
NOT_DECIDED = []


def functions():
    return record(UTIL, "resize", "flip", "circshift", "downsample", "upsample", "_expand_shapes", "_normalize_axes") + \
        record(BLOCK, "array_to_blocks", "blocks_to_array", "_array_to_blocks1", "_array_to_blocks2", "_array_to_blocks3",
               "_blocks_to_array1", "_blocks_to_array2", "_blocks_to_array3")


def _util():
    return load(UTIL)


def _elem_post(out_shape_expected, spec_arr, tag):
    def post(r):
        if r.kind != "return":
            return [("no-exception", [], z3.BoolVal(False))]
        out = r.value
        obs = []
        if len(out.shape) != len(out_shape_expected):
            return [("rank", [], z3.BoolVal(False))]
        obs.append(("shape", [], z3.And(*[core._lift(a) == core._lift(b) for a, b in zip(out.shape, out_shape_expected)])))
        k = [z3.Int("k%d" % d) for d in range(len(out_shape_expected))]
        sp = spec_arr()
        for sfx, g in lf_equal_goals(out.elem(tuple(k)), sp.elem(tuple(k))):
            obs.append(("%s[%s]" % (tag, sfx), box(k, out_shape_expected), g))
        return obs
    return post


# ------------------------------------------------------------------ resize
def job_resize(ri, ro, shifts, timeout_ms):
    rec = record(UTIL, "resize")[0]
    util = _util()
    state = {}

    def run():
        n = ints("n", ri)
        m = ints("m", ro)
        for e in n + m:
            core.assume(e >= 1)
        x = SArr.input("x", n)
        r = max(ri, ro)
        ish = si = so = None
        if shifts in ("both", "i"):
            si = ints("si", r)
            n1 = [1] * (r - ri) + n
            for s_, e in zip(si, n1):
                core.assume(core.And(s_ >= 0, s_ < e))
        if shifts in ("both", "o"):
            so = ints("so", r)
            m1 = [1] * (r - ro) + m
            for s_, e in zip(so, m1):
                core.assume(core.And(s_ >= 0, s_ < e))
        state.update(x=x, m=m, si=si, so=so)
        return util.resize(x, m, ishift=si, oshift=so)
    results = explore(run)
    inst = "rank%d->%d,shifts=%s" % (ri, ro, shifts)
    obs, covers = [], []
    for i, r in enumerate(results):
        # state must be rebuilt per path: re-create the symbolic inputs (same names) for the spec side
        pass
    def post(r):
        n = ints("n", ri)
        m = ints("m", ro)
        x = SArr.input("x", n)
        rr = max(ri, ro)
        si = ints("si", rr) if shifts in ("both", "i") else None
        so = ints("so", rr) if shifts in ("both", "o") else None
        return _elem_post(m, lambda: specs.spec_resize(x, m, si, so), "centre-alignment" if shifts == "none" else "shift-alignment")(r)
    obs, covers = path_obligations("C09/util.resize/%s" % inst, results, post, instance=inst, fn_record=rec)
    return check_obligations(obs, timeout_ms) + covers


# ------------------------------------------------------------------ flip / circshift / downsample / upsample
def job_flip(rank, axes, timeout_ms):
    rec = record(UTIL, "flip")[0]
    util = _util()
    ax = None if axes is None else list(axes)

    def run():
        n = ints("n", rank)
        for e in n:
            core.assume(e >= 1)
        return util.flip(SArr.input("x", n), ax)
    results = explore(run)
    inst = "rank%d,axes=%s" % (rank, axes)

    def post(r):
        n = ints("n", rank)
        x = SArr.input("x", n)
        return _elem_post(n, lambda: specs.spec_flip(x, ax), "reversed")(r)
    obs, covers = path_obligations("C09/util.flip/%s" % inst, results, post, instance=inst, fn_record=rec)
    return check_obligations(obs, timeout_ms) + covers


def job_circshift(rank, axes, timeout_ms):
    rec = record(UTIL, "circshift")[0]
    util = _util()
    ax = None if axes is None else list(axes)
    ns = rank if axes is None else len(axes)

    def run():
        n = ints("n", rank)
        for e in n:
            core.assume(e >= 1)
        s = ints("s", ns)
        return util.circshift(SArr.input("x", n), s, ax)
    results = explore(run)
    inst = "rank%d,axes=%s" % (rank, axes)

    def post(r):
        n = ints("n", rank)
        x = SArr.input("x", n)
        s = ints("s", ns)
        return _elem_post(n, lambda: specs.spec_circshift(x, s, ax), "rotated")(r)
    obs, covers = path_obligations("C09/util.circshift/%s" % inst, results, post, instance=inst, fn_record=rec)
    return check_obligations(obs, timeout_ms) + covers


def _fs(rank, nf, with_shift):
    f = ints("f", nf)
    s = ints("s", nf) if with_shift else None
    return f, s


def job_downsample(rank, nf, with_shift, timeout_ms):
    rec = record(UTIL, "downsample")[0]
    util = _util()

    def run():
        n = ints("n", rank)
        f, s = _fs(rank, nf, with_shift)
        for e in n:
            core.assume(e >= 1)
        for d in range(nf):
            core.assume(f[d] >= 1)
            if s:
                core.assume(core.And(s[d] >= 0, s[d] < n[d]))
        return util.downsample(SArr.input("x", n), f, shift=s)
    results = explore(run)
    inst = "rank%d,factors=%d,shift=%s" % (rank, nf, with_shift)

    def post(r):
        n = ints("n", rank)
        f, s = _fs(rank, nf, with_shift)
        x = SArr.input("x", n)
        sp = specs.spec_downsample(x, f, s)
        return _elem_post(sp.shape, lambda: sp, "every-f-th-from-shift")(r)
    obs, covers = path_obligations("C09/util.downsample/%s" % inst, results, post, instance=inst, fn_record=rec)
    return check_obligations(obs, timeout_ms) + covers


def job_upsample(rank, nf, with_shift, timeout_ms):
    rec = record(UTIL, "upsample")[0]
    util = _util()

    def mk():
        o = ints("o", rank)
        f, s = _fs(rank, nf, with_shift)
        ishape = [specs.ceil_div(o[d] - (s[d] if s else 0), f[d]) if d < nf else o[d] for d in range(rank)]
        return o, f, s, ishape

    def run():
        o = ints("o", rank)
        f, s = _fs(rank, nf, with_shift)
        for e in o:
            core.assume(e >= 1)
        for d in range(nf):
            core.assume(f[d] >= 1)
            if s:
                core.assume(core.And(s[d] >= 0, s[d] < o[d]))
        ishape = [specs.ceil_div(o[d] - (s[d] if s else 0), f[d]) if d < nf else o[d] for d in range(rank)]
        return util.upsample(SArr.input("x", ishape), o, f, shift=s)
    results = explore(run)
    inst = "rank%d,factors=%d,shift=%s" % (rank, nf, with_shift)

    def post(r):
        o, f, s, ishape = mk()
        x = SArr.input("x", ishape)
        return _elem_post(o, lambda: specs.spec_upsample(x, o, f, s), "scattered-into-zeros")(r)
    obs, covers = path_obligations("C09/util.upsample/%s" % inst, results, post, instance=inst, fn_record=rec)
    return check_obligations(obs, timeout_ms) + covers


# ------------------------------------------------------------------ blocks
def _block():
    util = load(UTIL)
    ns = base_ns(util=util, nb=None)
    src.load_module(BLOCK, ns, transforms=(src.loop_rewrite,))
    return Mod(ns, BLOCK)


def _blk_syms(D, nbatch):
    N, B, St = ints("N", D), ints("B", D), ints("S", D)
    bt = ints("bt", nbatch)
    return N, B, St, bt


def _blk_pre(N, B, St, bt):
    for n, b, s in zip(N, B, St):
        core.assume(core.And(b >= 1, s >= 1, n >= b))
    for e in bt:
        core.assume(e >= 1)


def job_a2b(D, nbatch, timeout_ms):
    rec = record(BLOCK, "array_to_blocks")[0]
    blk = _block()

    def run():
        N, B, St, bt = _blk_syms(D, nbatch)
        _blk_pre(N, B, St, bt)
        return blk.array_to_blocks(SArr.input("x", bt + N), B, St)
    results = explore(run)
    inst = "D=%d,batch_axes=%d" % (D, nbatch)

    def post(r):
        N, B, St, bt = _blk_syms(D, nbatch)
        sp = specs.spec_array_to_blocks(SArr.input("x", bt + N), B, St)
        return _elem_post(sp.shape, lambda: sp, "window-at-each-stride-multiple")(r)
    obs, covers = path_obligations("C09/block.array_to_blocks/%s" % inst, results, post, instance=inst, fn_record=rec)
    return check_obligations(obs, timeout_ms) + covers


def job_b2a(D, nbatch, timeout_ms):
    rec = record(BLOCK, "blocks_to_array")[0]
    blk = _block()

    def run():
        N, B, St, bt = _blk_syms(D, nbatch)
        _blk_pre(N, B, St, bt)
        nb = specs.num_blks(N, B, St)
        return blk.blocks_to_array(SArr.input("x", bt + nb + B), bt + N, B, St)
    results = explore(run)
    inst = "D=%d,batch_axes=%d" % (D, nbatch)

    def post(r):
        N, B, St, bt = _blk_syms(D, nbatch)
        nb = specs.num_blks(N, B, St)
        sp = specs.spec_blocks_to_array(SArr.input("x", bt + nb + B), bt + N, B, St)
        return _elem_post(sp.shape, lambda: sp, "overlaps-accumulate-uncovered-zero")(r)
    obs, covers = path_obligations("C09/block.blocks_to_array/%s" % inst, results, post, instance=inst, fn_record=rec)
    return check_obligations(obs, timeout_ms) + covers


# ------------------------------------------------------------------ replay
def _mi(model, name, default=2):
    v = model_int(model, name, None)
    return default if v is None else v


def replay_request(res):
    name, m = res["name"], (res.get("model") or {})
    kw = dict(kv.split("=") for kv in res["job"][res["job"].index("(") + 1:-1].split(",") if "=" in kv) if "(" in res["job"] else {}
    inst = res["meta"].get("instance", "")
    if "/util.resize/" in name:
        ri, ro = int(inst[4]), int(inst[7])
        sh = inst.split("shifts=")[1]
        r = max(ri, ro)
        return dict(fn="util.resize", args=dict(ishape=[_mi(m, "n%d" % d) for d in range(ri)], oshape=[_mi(m, "m%d" % d) for d in range(ro)],
                                                 ishift=[_mi(m, "si%d" % d, 0) for d in range(r)] if sh in ("both", "i") else None,
                                                 oshift=[_mi(m, "so%d" % d, 0) for d in range(r)] if sh in ("both", "o") else None))
    import ast as _ast
    def kwv(k):
        j = res["job"]
        seg = j[j.index("(") + 1:-1]
        # parse "a=1,axes=(0, -1),rank=2"
        parts, depth, cur = [], 0, ""
        for ch in seg:
            if ch in "([":
                depth += 1
            if ch in ")]":
                depth -= 1
            if ch == "," and depth == 0:
                parts.append(cur); cur = ""
            else:
                cur += ch
        parts.append(cur)
        d = dict(p.split("=", 1) for p in parts if "=" in p)
        return _ast.literal_eval(d[k])
    if "/util.flip/" in name:
        rank = kwv("rank")
        return dict(fn="util.flip", args=dict(shape=[_mi(m, "n%d" % d) for d in range(rank)], axes=kwv("axes")))
    if "/util.circshift/" in name:
        rank, axes = kwv("rank"), kwv("axes")
        ns = rank if axes is None else len(axes)
        return dict(fn="util.circshift", args=dict(shape=[_mi(m, "n%d" % d) for d in range(rank)], axes=axes,
                                                    shifts=[_mi(m, "s%d" % d, 1) for d in range(ns)]))
    if "/block." in name:
        D, nbt = kwv("D"), kwv("nbatch")
        B = [_mi(m, "B%d" % d, 2) for d in range(D)]
        St = [max(1, _mi(m, "S%d" % d, 1)) for d in range(D)]
        N = [max(_mi(m, "N%d" % d, 4), B[d]) for d in range(D)]
        bt = [max(1, _mi(m, "bt%d" % d, 2)) for d in range(nbt)]
        nb = [(N[d] - B[d] + St[d]) // St[d] for d in range(D)]
        if "array_to_blocks" in name:
            return dict(fn="block.array_to_blocks", args=dict(shape=bt + N, blk_shape=B, blk_strides=St))
        return dict(fn="block.blocks_to_array", args=dict(shape=bt + nb + B, oshape=bt + N, blk_shape=B, blk_strides=St))
    if "/util.downsample/" in name or "/util.upsample/" in name:
        rank, nf, ws = kwv("rank"), kwv("nf"), kwv("with_shift")
        f = [_mi(m, "f%d" % d, 2) for d in range(nf)]
        sft = [_mi(m, "s%d" % d, 0) for d in range(nf)] if ws else None
        if "/util.downsample/" in name:
            return dict(fn="util.downsample", args=dict(shape=[_mi(m, "n%d" % d, 5) for d in range(rank)], factors=f, shift=sft))
        o = [_mi(m, "o%d" % d, 5) for d in range(rank)]
        ish = [(-(-(o[d] - (sft[d] if sft else 0)) // f[d])) if d < nf else o[d] for d in range(rank)]
        return dict(fn="util.upsample", args=dict(ishape=ish, oshape=o, factors=f, shift=sft))
    return None


def probes(tier, seed):
    res = native("probe.py", dict(prop="C09", tier=tier, seed=seed), timeout=1500)
    if isinstance(res, dict) and res.get("error"):
        return [dict(name="native-probe", error=res["error"], cases=0)]
    return res


# ------------------------------------------------------------------ job list
def jobs(tier):
    M = "contracts.C09"
    js = []
    pairs = [(1, 1), (2, 2), (1, 2), (2, 1), (3, 3)] if tier == "quick" else [(a, b) for a in (1, 2, 3) for b in (1, 2, 3)]
    for ri, ro in pairs:
        for sh in (["none", "both"] if tier == "quick" else ["none", "both", "i", "o"]):
            if sh != "none" and max(ri, ro) == 3 and tier == "quick":
                continue
            js.append(Job(M, "job_resize", ri=ri, ro=ro, shifts=sh))
    for rank in (1, 2, 3):
        axsets = [None, (0,), (-1,)] + ([(0, -1)] if rank > 1 else [])
        if tier == "thorough":
            axsets = [None] + [c for k in range(1, rank + 1) for c in itertools.combinations(range(-rank, rank), k)
                               if len(set(a % rank for a in c)) == len(c)]
        for ax in axsets:
            js.append(Job(M, "job_flip", rank=rank, axes=ax))
            js.append(Job(M, "job_circshift", rank=rank, axes=ax))
    for rank in (1, 2, 3):
        for nf in range(1, rank + 1):
            for ws in (False, True):
                js.append(Job(M, "job_downsample", rank=rank, nf=nf, with_shift=ws))
                js.append(Job(M, "job_upsample", rank=rank, nf=nf, with_shift=ws))
    for D in (1, 2, 3):
        for nbatch in (0, 1):       # 2 batch axes: engine limit (flattening div/mod), covered by the native probe
            js.append(Job(M, "job_a2b", D=D, nbatch=nbatch))
            js.append(Job(M, "job_b2a", D=D, nbatch=nbatch))
    return js
