"""C08 - convolve matches the convolution definition; adjoints are exact.
Deductive part: the shape/stride arithmetic of the real conv._get_convolve_params (all D <= 3, symbolic lengths/strides/channels):
output length = number of samples of range(0, L, s) with L = m+n-1 (full) or |m-n|+1 (valid: data or filter may be the longer one); raises exactly on channel mismatch,
wrong number of strides, mixed larger/smaller axes in valid mode, unknown mode.  The linops built on it (ConvolveData/Filter and their
adjoints) forward identical parameters to the adjoint functions (C01).

The convolution sums run inside scipy.signal (compiled code outside /repo).  They enter through an ASSUMED contract (class
ScipyC: convolve 'full' is sum_j a[j] b[k-j], 'valid' is its window starting at min(len)-1, correlate(a, b) is
convolve(a, conj(reverse(b)))), probed (bounded) on the installed scipy.  Against that contract the real _convolve,
_convolve_data_adjoint and _convolve_filter_adjoint (reshape to [B, c, ...], channel loops, stride slicing, zero-stuffing,
choice of the correlation mode) are PROVED for D = 1 (2 thorough) with symbolic lengths and strides and 1-2 batch
entries / channels: convolve is the strided multi-channel convolution sum of the property text, and the two adjoint
functions have the conjugate coefficients (exact adjoints) and the requested shapes - including 'valid' mode with the
filter longer than the data."""
import itertools
import z3
from .common import *  # noqa: F401,F403

CONV = "sigpy/conv.py"
UTIL = "sigpy/util.py"
ASSUMPTIONS = ["extents, strides >= 1",
               "scipy.signal contract (class ScipyC): convolve(a,b,'full')[k] = sum_j a[j] b[k-j]; 'valid' = the window of the full result starting at "
               "min(len a, len b) - 1 of length |len a - len b| + 1 (one operand at least as long in every axis, else ValueError); "
               "correlate(a,b,mode) = convolve(a, conj(reverse(b)), mode).  Assumed; probed (bounded) on the installed scipy",
               "batch entries and channel counts concrete (1, 2) in the sum obligations; lengths and strides symbolic"]
TRUSTED = ["linear-form domain of pyvc/snp.py", "scipy.signal (compiled, outside /repo)"]
BOUNDS = {"D": "1..3 (shape arithmetic); 1 (2 thorough) for the sums", "channels / batch entries": "1..2 (sums)"}
NOT_DECIDED = ["scipy.signal's own correctness (assumed contract; bounded probe)", "D = 3 sums: bounded native probe only", "the cuDNN path (disabled)"]


def functions():
    return record(CONV, "_get_convolve_params", "_convolve", "_convolve_data_adjoint", "_convolve_filter_adjoint", "convolve",
                  "convolve_data_adjoint", "convolve_filter_adjoint")


def _ns():
    util_ns = base_ns()
    src.load_module(UTIL, util_ns)
    util = Mod(util_ns, UTIL)
    ns = base_ns(util=util, signal=None)
    src.load_module(CONV, ns, only=["_get_convolve_params"], transforms=(src.loop_rewrite,))
    return Mod(ns, CONV)


def job_params(D, mode, mc, with_strides, nbatch, timeout_ms):
    rec = record(CONV, "_get_convolve_params")[0]
    M = _ns()

    def mk():
        m, n = ints("m", D), ints("n", D)
        st = ints("s", D) if with_strides else None
        bt = ints("b", nbatch)
        ci, cid, co = Sym(z3.Int("ci")), Sym(z3.Int("ci_data")), Sym(z3.Int("co"))
        return m, n, st, bt, ci, cid, co

    def run():
        m, n, st, bt, ci, cid, co = mk()
        for e in m + n + (st or []) + bt + [ci, cid, co]:
            core.assume(e >= 1)
        dshape = bt + ([cid] if mc else []) + m
        fshape = ([co, ci] if mc else []) + n
        return M._get_convolve_params(dshape, fshape, mode, st, mc)
    results = explore(run, max_paths=400)
    inst = "D=%d,mode=%s,multi_channel=%s,strides=%s,batch_axes=%d" % (D, mode, mc, with_strides, nbatch)

    def post(r):
        m, n, st, bt, ci, cid, co = mk()
        s = [x.t for x in st] if st else [z3.IntVal(1)] * D
        mm, nn = [x.t for x in m], [x.t for x in n]
        chan_ok = (ci.t == cid.t) if mc else z3.BoolVal(True)
        if mode == "valid":
            ge = [a >= b for a, b in zip(mm, nn)]
            lt = [a < b for a, b in zip(mm, nn)]
            mixed = z3.And(z3.Or(*ge), z3.Or(*lt))
        else:
            mixed = z3.BoolVal(False)
        admissible = z3.And(chan_ok, z3.Not(mixed)) if mode in ("full", "valid") else z3.BoolVal(False)
        if r.kind != "return":
            # rejection is also acceptable for 'valid' with a filter longer than the data (statement: "computed correctly or rejected")
            longer = z3.Or(*[a < b for a, b in zip(mm, nn)]) if mode == "valid" else z3.BoolVal(False)
            return [("raises-only-for-inadmissible-arguments(or-valid-with-longer-filter)", [], z3.Or(z3.Not(admissible), longer))]
        Dv, b, B, m_, n_, s_, c_i, c_o, p = r.value
        obs = [("returns-only-for-admissible-arguments", [], admissible),
               ("D,m,n,s,channels", [], z3.And(z3.BoolVal(Dv == D and len(p) == D and len(b) == nbatch),
                                               *[core._lift(a) == b_ for a, b_ in zip(list(m_) + list(n_) + list(s_), mm + nn + s)],
                                               core._lift(c_i) == (ci.t if mc else 1), core._lift(c_o) == (co.t if mc else 1)))]
        Bt = z3.IntVal(1)
        for e in bt:
            Bt = Bt * e.t
        obs.append(("B==prod(batch)", [], core._lift(B) == Bt))
        for d in range(D):
            # L = un-strided output length; p = number of samples 0, s, 2s, ... < L  =  ceil(L / s)
            dd = z3.If(mm[d] >= nn[d], mm[d] - nn[d], nn[d] - mm[d])
            L = (mm[d] + nn[d] - 1) if mode == "full" else (dd + 1)
            pd = core._lift(p[d])
            obs.append(("p[%d]==ceil(L/s),L=%s" % (d, "m+n-1" if mode == "full" else "|m-n|+1"), [], z3.And((pd - 1) * s[d] < L, L <= pd * s[d])))
        return obs
    obs, covers = path_obligations("C08/_get_convolve_params/%s" % inst, results, post, instance=inst, fn_record=rec)
    return check_obligations(obs, timeout_ms) + covers


def job_reject(timeout_ms):
    """wrong number of strides and unknown mode raise"""
    rec = record(CONV, "_get_convolve_params")[0]
    M = _ns()
    obs_all, cov_all = [], []
    for nm, kw in (("strides-length", dict(mode="full", strides=[1, 1])), ("unknown-mode", dict(mode="same", strides=None))):
        def run(kw=kw):
            m, n = ints("m", 1), ints("n", 1)
            for e in m + n:
                core.assume(e >= 1)
            return M._get_convolve_params(m, n, kw["mode"], kw["strides"], False)
        results = explore(run)
        o, c = path_obligations("C08/_get_convolve_params/reject:%s" % nm, results,
                                lambda r: [("raises", [], z3.BoolVal(r.kind != "return"))], instance=nm, fn_record=rec)
        obs_all += o
        cov_all += c
    return check_obligations(obs_all, timeout_ms) + cov_all


# ----------------------------------------------------------------------------- the convolution sums against the scipy contract
from pyvc.snp import SArr, LF, C, Term, Binder, lf_equal_goals  # noqa: E402


def _is_linear(a):
    return bool(a.elem(tuple(z3.IntVal(0) for _ in a.shape)).terms)


class ScipyC:
    """assumed contract of scipy.signal.convolve / correlate (N-D, modes full / valid)"""

    @staticmethod
    def convolve(in1, in2, mode="full", method="auto"):
        if in1.ndim != in2.ndim:
            raise snp.SValueError("in1 and in2 should have the same dimensionality")
        lin, val = (in1, in2) if (_is_linear(in1) or not _is_linear(in2)) else (in2, in1)     # convolution commutes
        if _is_linear(val):
            raise core.Unsupported("convolution of two input-dependent arrays")
        nd = lin.ndim
        ML, MV = list(lin.shape), list(val.shape)
        if mode == "full":
            off = [0] * nd
            oshape = [S(a) + S(b) - 1 for a, b in zip(ML, MV)]
        elif mode == "valid":
            ge = core.sym_all(S(a) >= S(b) for a, b in zip(in1.shape, in2.shape))
            le = core.sym_all(S(a) <= S(b) for a, b in zip(in1.shape, in2.shape))
            if not (ge or le):
                raise snp.SValueError("For 'valid' mode, one must be at least as large as the other in every dimension")
            off = [core.sym_min(S(a), S(b)) - 1 for a, b in zip(ML, MV)]
            oshape = [core.sym_max(S(a), S(b)) - core.sym_min(S(a), S(b)) + 1 for a, b in zip(ML, MV)]
        else:
            raise snp.SValueError("acceptable mode flags are 'valid', 'same', or 'full'")
        ls, vs = lin._snapshot(), val._snapshot()

        def el(k):
            c = core.cur()
            js = [core.fresh_int("cj") for _ in range(nd)]
            binders = [Binder(j, 0, n) for j, n in zip(js, ML)]
            saved = list(c.binders)
            try:
                # witnesses (div / mod of a strided store) created while the summand is evaluated are functions of the
                # summation variables: they become functionally defined binders of the comprehension
                c.binders.extend(binders)
                vidx = [z3.simplify(k[d] + core._lift(off[d]) - js[d]) for d in range(nd)]
                inr = z3.And(*[z3.And(vidx[d] >= 0, vidx[d] < core._lift(MV[d])) for d in range(nd)])
                w = vs(tuple(vidx)).value()
                v = ls(tuple(js))
                defs = [x_ for x_ in c.binders if x_ not in saved and x_ not in binders]
                allb = binders + defs
            finally:
                c.binders[:] = saved
            if not v.const.is_zero():
                raise core.Unsupported("convolution of a non-homogeneous value")
            return LF(snp.C0, [Term(tuple(allb) + t.binders, tuple(b.range_cond() for b in allb) + (inr,) + t.guard, t.coef * w, t.atom, t.idx, t.conj)
                                for t in v.terms])
        return SArr(tuple(oshape), el, snp.CDT)

    @staticmethod
    def correlate(in1, in2, mode="full", method="auto"):
        if _is_linear(in2):
            raise core.Unsupported("correlation with an input-dependent second operand")
        s2 = in2._snapshot()
        sh = list(in2.shape)
        rb = SArr(tuple(sh), lambda k: s2(tuple(core._lift(S(n) - 1) - k[d] for d, n in enumerate(sh))).conjugate(), in2.dtype)
        return ScipyC.convolve(in1, rb, mode)


def _ns_full():
    util_ns = base_ns()
    src.load_module(UTIL, util_ns)
    util = Mod(util_ns, UTIL)
    ns = base_ns(util=util, signal=ScipyC)
    src.load_module(CONV, ns)
    return Mod(ns, CONV)


def spec_convolve(data, filt, m, n, s, mode, B, ci, co):
    """the property's definition on the normalised layout data [B, ci, m..], filt [co, ci, n..] -> [B, co, p..]:
    out[b, o, q] = sum_i sum_t data[b, i, t] * filt[o, i, q*s + off - t],  off = 0 (full) / min(m, n) - 1 (valid)"""
    D = len(m)
    if mode == "full":
        off = [0] * D
        L = [S(a) + S(b) - 1 for a, b in zip(m, n)]
    else:
        off = [core.sym_min(S(a), S(b)) - 1 for a, b in zip(m, n)]
        L = [core.sym_max(S(a), S(b)) - core.sym_min(S(a), S(b)) + 1 for a, b in zip(m, n)]
    p = [(l + S(sd) - 1) // S(sd) for l, sd in zip(L, s)]
    ds, fs = data._snapshot(), filt._snapshot()
    lin_data = _is_linear(data)

    def el(k):
        b, o, q = k[0], k[1], k[2:]
        tot = LF(snp.C0)
        for i in range(ci):
            ts = [core.fresh_int("ct") for _ in range(D)]
            rng = m if lin_data else n
            binders = [Binder(t, 0, e) for t, e in zip(ts, rng)]
            other = [z3.simplify(q[d] * core._lift(S(s[d])) + core._lift(off[d]) - ts[d]) for d in range(D)]
            orng = n if lin_data else m
            inr = z3.And(*[z3.And(other[d] >= 0, other[d] < core._lift(orng[d])) for d in range(D)])
            if lin_data:
                v = ds((b, z3.IntVal(i)) + tuple(ts))
                w = fs((o, z3.IntVal(i)) + tuple(other)).value()
            else:
                v = fs((o, z3.IntVal(i)) + tuple(ts))
                w = ds((b, z3.IntVal(i)) + tuple(other)).value()
            tot = tot + LF(snp.C0, [Term(tuple(binders) + t.binders, tuple(x.range_cond() for x in binders) + (inr,) + t.guard, t.coef * w, t.atom, t.idx, t.conj)
                                    for t in v.terms])
        return tot
    return SArr((B, co) + tuple(p), el, snp.CDT)


def job_sums(D, mode, longer, B, ci, co, timeout_ms):
    """convolve == definition; convolve_data_adjoint / convolve_filter_adjoint exact adjoints (multi-channel layout)"""
    M = _ns_full()
    rec = record(CONV, "_convolve")[0]
    st = {}

    def run():
        m, n, s = ints("m", D), ints("n", D), ints("s", D)
        for e in m + n + s:
            core.assume(e >= 1)
        for a, b in zip(m, n):
            if mode == "valid":
                core.assume((a >= b) if longer == "data" else (a < b))
        dshape, fshape = [B, ci] + m, [co, ci] + n
        x = SArr.input("x", dshape)
        fv = SArr.input("filt", fshape, valued=True)
        out = M._convolve(x, fv, mode=mode, strides=s, multi_channel=True)
        y = SArr.input("y", list(out.shape))
        dadj = M._convolve_data_adjoint(y, fv, dshape, mode=mode, strides=s, multi_channel=True)
        # linear in the filter
        f = SArr.input("f", fshape)
        xv = SArr.input("data", dshape, valued=True)
        outf = M._convolve(xv, f, mode=mode, strides=s, multi_channel=True)
        fadj = M._convolve_filter_adjoint(y, xv, fshape, mode=mode, strides=s, multi_channel=True)
        st[core.cur()] = (m, n, s, x, fv, out, y, dadj, f, xv, outf, fadj, dshape, fshape)
        return True
    results = explore(run, max_paths=64)
    inst = "sums(D=%d,mode=%s,longer=%s,B=%d,ci=%d,co=%d)" % (D, mode, longer, B, ci, co)

    def post(r):
        if r.kind != "return":
            return [("C08:runs-without-error(%s)" % (r.value,), [], z3.BoolVal(False))]
        m, n, s, x, fv, out, y, dadj, f, xv, outf, fadj, dshape, fshape = st[r.ctx]
        with core.spec_side():
            want = spec_convolve(x, fv, m, n, s, mode, B, ci, co)
            wantf = spec_convolve(xv, f, m, n, s, mode, B, ci, co)
        obs = []
        ok = len(out.shape) == len(want.shape)
        obs.append(("C08:convolve-output-shape", [], z3.And(z3.BoolVal(ok), *[core._lift(a) == core._lift(b) for a, b in zip(out.shape, want.shape)])))
        obs.append(("C08:data-adjoint-shape==data-shape", [], z3.And(z3.BoolVal(len(dadj.shape) == len(dshape)), *[core._lift(a) == core._lift(b) for a, b in zip(dadj.shape, dshape)])))
        obs.append(("C08:filter-adjoint-shape==filter-shape", [], z3.And(z3.BoolVal(len(fadj.shape) == len(fshape)), *[core._lift(a) == core._lift(b) for a, b in zip(fadj.shape, fshape)])))
        if not ok or len(dadj.shape) != len(dshape) or len(fadj.shape) != len(fshape):
            return obs
        k = [z3.Int("k%d" % d) for d in range(len(want.shape))]
        t = [z3.Int("t%d" % d) for d in range(len(dshape))]
        u = [z3.Int("u%d" % d) for d in range(len(fshape))]
        bk, bt, bu = box(k, want.shape), box(t, dshape), box(u, fshape)
        ok_, wk = out.elem(tuple(k)), want.elem(tuple(k))
        for sfx, g in lf_equal_goals(ok_, wk):
            obs.append(("C08:convolve==sum_i,t data*flipped-filter (strided)[%s]" % sfx, bk, g))
        for sfx, g in lf_equal_goals(outf.elem(tuple(k)), wantf.elem(tuple(k))):
            obs.append(("C08:convolve==definition (linear in the filter)[%s]" % sfx, bk, g))
        from .linops import adjoint_goals
        for sfx, g in adjoint_goals(ok_, dadj.elem(tuple(t)), "x", "y", k, t):
            obs.append(("C08:convolve_data_adjoint-is-the-exact-adjoint[%s]" % sfx, bk + bt, g))
        for sfx, g in adjoint_goals(outf.elem(tuple(k)), fadj.elem(tuple(u)), "f", "y", k, u):
            obs.append(("C08:convolve_filter_adjoint-is-the-exact-adjoint[%s]" % sfx, bk + bu, g))
        return obs
    obs, covers = path_obligations("C08/%s" % inst, results, post, instance=inst, fn_record=rec)
    return check_obligations(obs, timeout_ms) + covers


def jobs(tier):
    M = "contracts.C08"
    js = [Job(M, "job_reject")]
    for D in (1, 2, 3):
        for mode in ("full", "valid"):
            for mc in (False, True):
                for ws in (False, True):
                    if D == 3 and mc and ws and tier == "quick":
                        continue
                    js.append(Job(M, "job_params", D=D, mode=mode, mc=mc, with_strides=ws, nbatch=1 if mc else 0))
    for D in ((1, 2) if tier == "thorough" else (1,)):
        for mode, longer in (("full", "-"), ("valid", "data"), ("valid", "filter")):
            for B, ci, co in ((1, 1, 1), (2, 1, 2), (1, 2, 2), (2, 2, 1)):      # 8 loop iterations (2,2,2) blow up the term count
                if D == 2 and (B, ci, co) != (1, 1, 1):
                    continue
                js.append(Job(M, "job_sums", D=D, mode=mode, longer=longer, B=B, ci=ci, co=co))
    return js


def probes(tier, seed):
    res = native("probe.py", dict(prop="C08", tier=tier, seed=seed), timeout=1500)
    if isinstance(res, dict) and res.get("error"):
        return [dict(name="native-probe", error=res["error"], cases=0)]
    return res


def replay_request(res):
    import sys
    sys.path.insert(0, ROOT + "/native")
    import probe_C08
    return dict(fn="multi", args=dict(cases=list(probe_C08.cases("quick", 0))[:400]))
