"""C08 - convolve matches the convolution definition; adjoints are exact.
Deductive part: the shape/stride arithmetic of the real conv._get_convolve_params (all D <= 3, symbolic lengths/strides/channels):
output length = number of samples of range(0, L, s) with L = m+n-1 (full) or |m-n|+1 (valid: data or filter may be the longer one); raises exactly on channel mismatch,
wrong number of strides, mixed larger/smaller axes in valid mode, unknown mode.  The linops built on it (ConvolveData/Filter and their
adjoints) forward identical parameters to the adjoint functions (C01).  The convolution sums themselves run inside scipy.signal
(convolve / correlate): that clause is covered by the bounded native probe only and is reported as not decided."""
import itertools
import z3
from .common import *  # noqa: F401,F403

CONV = "sigpy/conv.py"
UTIL = "sigpy/util.py"
ASSUMPTIONS = ["extents, strides >= 1", "scipy.signal.convolve/correlate contracts are NOT used deductively: the definition clause is bounded-only"]
TRUSTED = []
BOUNDS = {"D": "1..3"}
NOT_DECIDED = ["equality of convolve / convolve_data_adjoint / convolve_filter_adjoint with the explicit (strided, multi-channel) convolution sum and its "
               "transposes: inside scipy.signal; bounded native probe with D<=2, lengths<=5, strides<=3, channels<=2, batch<=2"]


def functions():
    return record(CONV, "_get_convolve_params", "_convolve", "_convolve_data_adjoint", "_convolve_filter_adjoint", "convolve",
                  "convolve_data_adjoint", "convolve_filter_adjoint")


def _ns():
    util_ns = base_ns()
    src.load_module(UTIL, util_ns)
    util = Mod(util_ns, UTIL)
    ns = base_ns(util=util, signal=None)
    src.load_module(CONV, ns, only=["_get_convolve_params"], transforms=(src.loop_rewrite,))
    return Mod(ns, CONV)


def job_params(D, mode, mc, with_strides, nbatch, timeout_ms):
    rec = record(CONV, "_get_convolve_params")[0]
    M = _ns()

    def mk():
        m, n = ints("m", D), ints("n", D)
        st = ints("s", D) if with_strides else None
        bt = ints("b", nbatch)
        ci, cid, co = Sym(z3.Int("ci")), Sym(z3.Int("ci_data")), Sym(z3.Int("co"))
        return m, n, st, bt, ci, cid, co

    def run():
        m, n, st, bt, ci, cid, co = mk()
        for e in m + n + (st or []) + bt + [ci, cid, co]:
            core.assume(e >= 1)
        dshape = bt + ([cid] if mc else []) + m
        fshape = ([co, ci] if mc else []) + n
        return M._get_convolve_params(dshape, fshape, mode, st, mc)
    results = explore(run, max_paths=400)
    inst = "D=%d,mode=%s,multi_channel=%s,strides=%s,batch_axes=%d" % (D, mode, mc, with_strides, nbatch)

    def post(r):
        m, n, st, bt, ci, cid, co = mk()
        s = [x.t for x in st] if st else [z3.IntVal(1)] * D
        mm, nn = [x.t for x in m], [x.t for x in n]
        chan_ok = (ci.t == cid.t) if mc else z3.BoolVal(True)
        if mode == "valid":
            ge = [a >= b for a, b in zip(mm, nn)]
            lt = [a < b for a, b in zip(mm, nn)]
            mixed = z3.And(z3.Or(*ge), z3.Or(*lt))
        else:
            mixed = z3.BoolVal(False)
        admissible = z3.And(chan_ok, z3.Not(mixed)) if mode in ("full", "valid") else z3.BoolVal(False)
        if r.kind != "return":
            # rejection is also acceptable for 'valid' with a filter longer than the data (statement: "computed correctly or rejected")
            longer = z3.Or(*[a < b for a, b in zip(mm, nn)]) if mode == "valid" else z3.BoolVal(False)
            return [("raises-only-for-inadmissible-arguments(or-valid-with-longer-filter)", [], z3.Or(z3.Not(admissible), longer))]
        Dv, b, B, m_, n_, s_, c_i, c_o, p = r.value
        obs = [("returns-only-for-admissible-arguments", [], admissible),
               ("D,m,n,s,channels", [], z3.And(z3.BoolVal(Dv == D and len(p) == D and len(b) == nbatch),
                                               *[core._lift(a) == b_ for a, b_ in zip(list(m_) + list(n_) + list(s_), mm + nn + s)],
                                               core._lift(c_i) == (ci.t if mc else 1), core._lift(c_o) == (co.t if mc else 1)))]
        Bt = z3.IntVal(1)
        for e in bt:
            Bt = Bt * e.t
        obs.append(("B==prod(batch)", [], core._lift(B) == Bt))
        for d in range(D):
            # L = un-strided output length; p = number of samples 0, s, 2s, ... < L  =  ceil(L / s)
            dd = z3.If(mm[d] >= nn[d], mm[d] - nn[d], nn[d] - mm[d])
            L = (mm[d] + nn[d] - 1) if mode == "full" else (dd + 1)
            pd = core._lift(p[d])
            obs.append(("p[%d]==ceil(L/s),L=%s" % (d, "m+n-1" if mode == "full" else "|m-n|+1"), [], z3.And((pd - 1) * s[d] < L, L <= pd * s[d])))
        return obs
    obs, covers = path_obligations("C08/_get_convolve_params/%s" % inst, results, post, instance=inst, fn_record=rec)
    return check_obligations(obs, timeout_ms) + covers


def job_reject(timeout_ms):
    """wrong number of strides and unknown mode raise"""
    rec = record(CONV, "_get_convolve_params")[0]
    M = _ns()
    obs_all, cov_all = [], []
    for nm, kw in (("strides-length", dict(mode="full", strides=[1, 1])), ("unknown-mode", dict(mode="same", strides=None))):
        def run(kw=kw):
            m, n = ints("m", 1), ints("n", 1)
            for e in m + n:
                core.assume(e >= 1)
            return M._get_convolve_params(m, n, kw["mode"], kw["strides"], False)
        results = explore(run)
        o, c = path_obligations("C08/_get_convolve_params/reject:%s" % nm, results,
                                lambda r: [("raises", [], z3.BoolVal(r.kind != "return"))], instance=nm, fn_record=rec)
        obs_all += o
        cov_all += c
    return check_obligations(obs_all, timeout_ms) + cov_all


def jobs(tier):
    M = "contracts.C08"
    js = [Job(M, "job_reject")]
    for D in (1, 2, 3):
        for mode in ("full", "valid"):
            for mc in (False, True):
                for ws in (False, True):
                    if D == 3 and mc and ws and tier == "quick":
                        continue
                    js.append(Job(M, "job_params", D=D, mode=mode, mc=mc, with_strides=ws, nbatch=1 if mc else 0))
    return js


def probes(tier, seed):
    res = native("probe.py", dict(prop="C08", tier=tier, seed=seed), timeout=1500)
    if isinstance(res, dict) and res.get("error"):
        return [dict(name="native-probe", error=res["error"], cases=0)]
    return res


def replay_request(res):
    import sys
    sys.path.insert(0, ROOT + "/native")
    import probe_C08
    return dict(fn="multi", args=dict(cases=list(probe_C08.cases("quick", 0))[:400]))
