"""pyvc core: symbolic scalars over z3, path exploration by decision replay, obligations.

The real function bodies of /repo are compiled from their AST (see src.py) and run under CPython on
these values.  `bool()` of a symbolic condition forks the path (re-execution with a recorded
decision prefix).  Integer `//` and `%` follow Python (floored); symbolic divisors introduce
quotient/remainder witnesses.  Floats are reals.  Every division / sqrt emits a definedness
obligation.
"""
import itertools
import z3

z3.set_param("model.completion", True)


class Unsupported(BaseException):
    """The code left the subset the engine supports -> exit 3 (never a violation).
    Derives from BaseException so that `except Exception` clauses of the verified code cannot swallow it."""


class PathAbort(BaseException):
    """Internal: path became infeasible."""


# ----------------------------------------------------------------------------- context
class Ctx:
    def __init__(self, prefix=()):
        self.prefix = list(prefix)
        self.decisions = []
        self.pc = []          # branch conditions taken + assumptions
        self.defs = []        # definitional constraints of fresh variables
        self.side = []        # side obligations (name, hyps snapshot, goal)
        self.pending = []     # alternative prefixes discovered
        self.fresh = itertools.count()
        self.binders = []     # active loop binders (generic iterations)
        self.loopdepth = 0
        self.notes = []

    def hyps(self):
        return list(self.pc) + list(self.defs)


_CUR = [None]


def cur():
    c = _CUR[0]
    if c is None:
        raise RuntimeError("no active symbolic context")
    return c


def fresh_name(prefix):
    return "%s!%d" % (prefix, next(cur().fresh))


def fresh_int(prefix="i"):
    return z3.Int(fresh_name(prefix))


def fresh_real(prefix="r"):
    return z3.Real(fresh_name(prefix))


_FEAS_TIMEOUT = 2000


def _check(hyps, timeout=_FEAS_TIMEOUT):
    s = z3.Solver()
    s.set("timeout", timeout)
    s.add(*hyps)
    return s.check()


def assume(cond):
    """Add an assumption (a precondition of the contract) to the current path."""
    c = cur()
    t = cond.t if isinstance(cond, SymBool) else (z3.BoolVal(cond) if isinstance(cond, bool) else cond)
    c.pc.append(t)


class spec_side:
    """context manager: expressions built inside belong to the SPECIFICATION; their definedness is not an obligation of the code"""

    def __enter__(self):
        c = cur()
        c.__dict__["no_side"] = c.__dict__.get("no_side", 0) + 1

    def __exit__(self, *a):
        cur().__dict__["no_side"] -= 1
        return False


def side_obligation(name, goal):
    c = cur()
    if c.__dict__.get("no_side", 0) and name.startswith("def:"):
        return
    g = goal.t if isinstance(goal, SymBool) else (z3.BoolVal(bool(goal)) if isinstance(goal, bool) else goal)
    prem = [b.range_cond() for b in c.binders] + list(c.__dict__.get("guards", []))
    if prem:
        g = z3.Implies(z3.And(*prem), g)
    seen = c.__dict__.setdefault("side_seen", set())
    key = (name, g.get_id())
    if key in seen:
        return           # lazily re-evaluated expression: the obligation of its first evaluation stands
    seen.add(key)
    if z3.is_true(z3.simplify(g)):
        return
    c.side.append((name, c.hyps(), g))


def define(constraint):
    cur().defs.append(constraint)


# ----------------------------------------------------------------------------- scalars
def _lift(x):
    """python/sym scalar -> z3 arith term"""
    if isinstance(x, Sym):
        return x.t
    if isinstance(x, bool):
        return z3.IntVal(int(x))
    if isinstance(x, int):
        return z3.IntVal(x)
    if isinstance(x, float):
        if x != x or x in (float("inf"), float("-inf")):
            raise Unsupported("non-finite float constant")
        return z3.RealVal(repr(x)) if False else _real_of_float(x)
    if isinstance(x, SymBool):
        return z3.If(x.t, z3.IntVal(1), z3.IntVal(0))
    if z3.is_expr(x):
        return x
    if hasattr(x, "_cmp_real"):
        return x._cmp_real().t
    if hasattr(x, "value") and hasattr(x, "terms"):
        if x.terms:
            raise Unsupported("a linear form is not a scalar")      # lets the reflected operator of LF take over
        return x.value()._cmp_real().t
    try:
        import numpy as _np
        if isinstance(x, _np.integer):
            return z3.IntVal(int(x))
        if isinstance(x, _np.floating):
            return _real_of_float(float(x))
    except ImportError:
        pass
    raise Unsupported("cannot lift %r to a symbolic scalar" % (type(x),))


def _real_of_float(x):
    from fractions import Fraction
    fr = Fraction(x)
    # decimal literals such as 0.5, 1.25, 0.8 are meant as the decimal; use the shortest repr
    fr2 = Fraction(repr(x))
    if float(fr2) == x:
        fr = fr2
    return z3.RealVal(str(fr))


class _Inf:
    """+infinity as produced by np.inf in solver state (resid = np.inf): only comparisons are supported"""

    def __init__(self, sign=1):
        self.sign = sign

    def __neg__(self):
        return _Inf(-self.sign)

    def _c(self, o, when_pos):
        if isinstance(o, _Inf):
            raise Unsupported("inf compared with inf")
        return when_pos if self.sign > 0 else (not when_pos)

    def __le__(self, o):
        return self._c(o, False)

    def __lt__(self, o):
        return self._c(o, False)

    def __ge__(self, o):
        return self._c(o, True)

    def __gt__(self, o):
        return self._c(o, True)

    def __eq__(self, o):
        return isinstance(o, _Inf) and o.sign == self.sign

    def __ne__(self, o):
        return not self.__eq__(o)

    def __hash__(self):
        return hash(("inf", self.sign))

    def item(self):
        return self

    def __repr__(self):
        return "inf" if self.sign > 0 else "-inf"


INF = _Inf()


def is_sym(x):
    return isinstance(x, (Sym, SymBool))


def concrete(x):
    """Return python value if x is (or simplifies to) a constant, else None."""
    if isinstance(x, (int, float, bool)):
        return x
    if isinstance(x, Sym):
        t = z3.simplify(x.t)
        if z3.is_int_value(t):
            return t.as_long()
        if z3.is_rational_value(t):
            from fractions import Fraction
            return Fraction(t.numerator_as_long(), t.denominator_as_long())
        return None
    if isinstance(x, SymBool):
        t = z3.simplify(x.t)
        if z3.is_true(t):
            return True
        if z3.is_false(t):
            return False
    return None


class SymBool:
    __slots__ = ("t",)

    def __init__(self, t):
        self.t = t if z3.is_expr(t) else z3.BoolVal(bool(t))

    def __bool__(self):
        t = z3.simplify(self.t)
        if z3.is_true(t):
            return True
        if z3.is_false(t):
            return False
        c = cur()
        if c.binders:
            from .snp import _mentions_binder
            if _mentions_binder(t):
                raise Unsupported("branch on a generic loop variable outside a summarisable conditional")
        pos = len(c.decisions)
        if pos < len(c.prefix):
            d = c.prefix[pos]
        else:
            hy = c.hyps()
            rt = _check(hy + [t])
            rf = _check(hy + [z3.Not(t)])
            can_t = rt != z3.unsat
            can_f = rf != z3.unsat
            if can_t and can_f:
                if c.__dict__.get("finished"):
                    # the path's exploration is over (obligation generation re-entered its context): a fork here would
                    # silently restrict the obligations to one branch and never visit the other
                    raise ForkInPost("path fork during obligation generation on: %s" % str(t)[:120])
                d = True
                c.pending.append(c.decisions + [False])
            elif can_t:
                d = True
            elif can_f:
                d = False
            else:
                raise PathAbort()
        c.decisions.append(d)
        c.pc.append(t if d else z3.Not(t))
        return d

    def __and__(self, o):
        return SymBool(z3.And(self.t, _lb(o)))

    __rand__ = __and__

    def __or__(self, o):
        return SymBool(z3.Or(self.t, _lb(o)))

    __ror__ = __or__

    def __invert__(self):
        return SymBool(z3.Not(self.t))

    def __eq__(self, o):
        return SymBool(self.t == _lb(o))

    def __ne__(self, o):
        return SymBool(self.t != _lb(o))

    def __hash__(self):
        return hash(self.t)

    def __repr__(self):
        return "SymBool(%s)" % self.t

    # arithmetic on bools (mask *= r < 1 style) goes through ints
    def _int(self):
        return Sym(z3.If(self.t, z3.IntVal(1), z3.IntVal(0)))

    def __mul__(self, o):
        return self._int() * o

    __rmul__ = __mul__

    def __add__(self, o):
        return self._int() + o

    __radd__ = __add__


def _lb(x):
    if isinstance(x, SymBool):
        return x.t
    if isinstance(x, bool):
        return z3.BoolVal(x)
    if z3.is_expr(x) and z3.is_bool(x):
        return x
    raise Unsupported("cannot lift %r to a symbolic bool" % (x,))


def And(*xs):
    xs = [x for x in xs]
    if all(isinstance(x, bool) for x in xs):
        return all(xs)
    return SymBool(z3.And(*[_lb(x) for x in xs])) if xs else True


def Or(*xs):
    if all(isinstance(x, bool) for x in xs):
        return any(xs)
    return SymBool(z3.Or(*[_lb(x) for x in xs])) if xs else False


def Not(x):
    if isinstance(x, bool):
        return not x
    return SymBool(z3.Not(_lb(x)))


def Implies(a, b):
    return Or(Not(a), b)


def Ite(c, a, b):
    """symbolic if-then-else on scalars (no forking)"""
    if isinstance(c, bool):
        return a if c else b
    cv = concrete(c)
    if cv is not None:
        return a if cv else b
    if hasattr(a, "_ite") or hasattr(b, "_ite"):
        h = a if hasattr(a, "_ite") else b
        return type(h)._ite(c, a, b)
    return Sym(z3.If(_lb(c), _lift(a), _lift(b)))


class Sym:
    """Symbolic int or real."""
    __slots__ = ("t", "factors")

    def __init__(self, t, factors=None):
        self.t = t
        self.factors = factors     # for products of extents (reshape grouping)

    # -- classification
    @property
    def is_int(self):
        return self.t.is_int()

    def __repr__(self):
        return "Sym(%s)" % self.t

    def __hash__(self):
        return hash(self.t)

    # -- arithmetic
    def _bin(self, o, f, op=None, rev=False):
        if isinstance(o, complex) and op is not None:
            from .snp import C
            x, y = C(self), C.of(o)
            if rev:
                x, y = y, x
            return {"add": lambda: x + y, "sub": lambda: x - y, "mul": lambda: x * y, "div": lambda: x / y}[op]()
        try:
            b = _lift(o)
        except Unsupported:
            return NotImplemented
        return Sym(z3.simplify(f(self.t, b)))

    def __add__(self, o):
        return self._bin(o, lambda a, b: a + b, "add")

    def __radd__(self, o):
        return self._bin(o, lambda a, b: b + a, "add", True)

    def __sub__(self, o):
        return self._bin(o, lambda a, b: a - b, "sub")

    def __rsub__(self, o):
        return self._bin(o, lambda a, b: b - a, "sub", True)

    def __mul__(self, o):
        if isinstance(o, (list, tuple)):
            raise Unsupported("sequence repetition by a symbolic count")
        r = self._bin(o, lambda a, b: a * b, "mul")
        return r

    def __rmul__(self, o):
        if isinstance(o, (list, tuple)):
            raise Unsupported("sequence repetition by a symbolic count")
        return self._bin(o, lambda a, b: b * a, "mul", True)

    def __neg__(self):
        return Sym(z3.simplify(-self.t))

    def __pos__(self):
        return self

    def __abs__(self):
        return Sym(z3.If(self.t >= 0, self.t, -self.t))

    def __truediv__(self, o):
        if isinstance(o, complex):
            return self._bin(o, None, "div")
        if not isinstance(o, (Sym, SymBool, int, float)) and not z3.is_expr(o) and not hasattr(o, "_cmp_real") and not (hasattr(o, "terms") and hasattr(o, "value")):
            return NotImplemented
        return sym_truediv(self, o)

    def __rtruediv__(self, o):
        if isinstance(o, complex):
            return self._bin(o, None, "div", True)
        return sym_truediv(o, self)

    def __floordiv__(self, o):
        return sym_floordiv(self, o)

    def __rfloordiv__(self, o):
        return sym_floordiv(o, self)

    def __mod__(self, o):
        return sym_mod(self, o)

    def __rmod__(self, o):
        return sym_mod(o, self)

    def __pow__(self, e):
        return sym_pow(self, e)

    def __rpow__(self, b):
        return sym_pow(b, self)

    # -- comparisons
    def _cmp(self, o, f):
        if o is None or isinstance(o, _Inf):
            return NotImplemented
        try:
            b = _lift(o)
        except Unsupported:
            return NotImplemented
        return SymBool(f(self.t, b))

    def __lt__(self, o):
        return self._cmp(o, lambda a, b: a < b)

    def __le__(self, o):
        return self._cmp(o, lambda a, b: a <= b)

    def __gt__(self, o):
        return self._cmp(o, lambda a, b: a > b)

    def __ge__(self, o):
        return self._cmp(o, lambda a, b: a >= b)

    def __eq__(self, o):
        if o is None or isinstance(o, (str, list, tuple)):
            return False
        r = self._cmp(o, lambda a, b: a == b)
        return False if r is NotImplemented else r

    def __ne__(self, o):
        if o is None or isinstance(o, (str, list, tuple)):
            return True
        r = self._cmp(o, lambda a, b: a != b)
        return True if r is NotImplemented else r

    # -- conversions
    def __bool__(self):
        return bool(SymBool(self.t != 0))

    def _const(self):
        v = concrete(self)
        if v is None:
            raise Unsupported("a concrete number is needed here but the value is symbolic: %s" % self.t)
        return v

    def __index__(self):
        v = self._const()
        if isinstance(v, int):
            return v
        raise Unsupported("non-integer used as index")

    def __int__(self):
        v = self._const()
        return int(v)

    def __float__(self):
        return float(self._const())

    # -- numpy scalar look-alikes
    def item(self):
        return self

    def conjugate(self):
        return self

    conj = conjugate

    @property
    def real(self):
        return self

    @property
    def imag(self):
        return 0

    @property
    def shape(self):
        return ()

    @property
    def ndim(self):
        return 0

    @staticmethod
    def _ite(c, a, b):
        return Sym(z3.If(_lb(c), _lift(a), _lift(b)))


def S(x):
    """wrap python number / z3 term as Sym"""
    return x if isinstance(x, Sym) else Sym(_lift(x))


def _to_real(t):
    return z3.ToReal(t) if t.is_int() else t


def sym_truediv(a, b):
    ta, tb = _lift(a), _lift(b)
    cb = z3.simplify(tb)
    if not (z3.is_int_value(cb) or z3.is_rational_value(cb)) or z3.is_true(z3.simplify(cb == 0)):
        side_obligation("def:div-nonzero", tb != 0)
    ra, rb = z3.simplify(_to_real(ta)), z3.simplify(_to_real(tb))
    if ra.eq(rb):
        return Sym(z3.RealVal(1))      # x / x (x != 0 is the side obligation above)
    if z3.is_rational_value(ra) and ra.numerator_as_long() == 0:
        return Sym(z3.RealVal(0))
    return Sym(z3.simplify(ra / rb))


def _divmod(a, b):
    """floored q, r with a == q*b + r ; r has the sign of b (python semantics)"""
    ta, tb = _lift(a), _lift(b)
    if not (ta.is_int() and tb.is_int()):
        # python float semantics: a // b == floor(a / b) (a float), a % b == a - (a // b) * b
        q = sym_floor(sym_truediv(a, b))
        qr = _to_real(_lift(q))
        return qr, z3.simplify(_to_real(ta) - qr * _to_real(tb))
    cb = z3.simplify(tb)
    if z3.is_int_value(cb):
        bv = cb.as_long()
        if bv == 0:
            raise ZeroDivisionError("integer division or modulo by zero")
        if bv > 0:
            q = ta / tb            # z3 int div: floor for positive divisor
            return z3.simplify(q), z3.simplify(ta - q * tb)
        q = (-ta) / (-tb)
        return z3.simplify(q), z3.simplify(ta - q * tb)
    # symbolic divisor: one quotient/remainder witness pair per distinct (dividend, divisor)
    c = cur()
    memo = c.__dict__.setdefault("divmemo", {})
    sa = z3.simplify(ta)
    key = (sa.get_id(), cb.get_id())
    if key in memo:
        return memo[key][:2]
    side_obligation("def:divisor-nonzero", tb != 0)
    q, r = fresh_int("q"), fresh_int("r")
    memo[key] = (q, r, sa, cb)
    cons = z3.And(sa == q * cb + r, z3.If(cb > 0, z3.And(r >= 0, r < cb), z3.And(r <= 0, r > cb)))
    if c.binders:
        # inside a generic loop iteration the witnesses are functions of the loop variables:
        # they become (functionally defined) bound variables of the comprehension, not global constants
        c.binders.append(DefBinder(q, r, sa, cb, cons))
    else:
        define(cons)
    return q, r


class FnDef:
    """a witness variable that is a FUNCTION of earlier bound variables (ceil / floor / trunc / sqrt inside a generic
    loop iteration): v is determined by cons(v)"""
    kind = "fdef"

    def __init__(self, v, cons):
        self.v, self.cons = v, cons

    def range_cond(self):
        return self.cons


def _witness(prefix, sort_int, mk_cons):
    """fresh witness with its defining constraint: global definition, or a functionally bound variable inside loops"""
    c = cur()
    v = fresh_int(prefix) if sort_int else fresh_real(prefix)
    cons = mk_cons(v)
    if c.binders:
        c.binders.append(FnDef(v, cons))
    else:
        define(cons)
    return v


class DefBinder:
    """q, r := divmod(a, d): bound variables that are functions of earlier bound variables"""
    kind = "def"

    def __init__(self, q, r, a, d, cons):
        self.q, self.r, self.a, self.d, self.cons = q, r, a, d, cons

    def range_cond(self):
        return self.cons


def _divmod_global(ta, tb):
    """divmod witnesses as global constants even when called while loop variables are active"""
    c = cur()
    saved, c.binders = c.binders, []
    try:
        return _divmod(ta, tb)
    finally:
        c.binders = saved


def sym_floordiv(a, b):
    if not is_sym(a) and not is_sym(b):
        return a // b
    return Sym(_divmod(a, b)[0])


def sym_mod(a, b):
    if not is_sym(a) and not is_sym(b):
        return a % b
    return Sym(_divmod(a, b)[1])


_SQRT_F = z3.Function("sqrt", z3.RealSort(), z3.RealSort())
_FLOOR_F = z3.Function("floor", z3.RealSort(), z3.IntSort())
_CEIL_F = z3.Function("ceil", z3.RealSort(), z3.IntSort())


class functional_witnesses:
    """context manager: sqrt witnesses are applications of an uninterpreted function (see sym_sqrt)"""

    def __enter__(self):
        c = cur()
        c.__dict__["fn_witness"] = c.__dict__.get("fn_witness", 0) + 1

    def __exit__(self, *a):
        cur().__dict__["fn_witness"] -= 1
        return False


def sym_sqrt(x):
    if not is_sym(x):
        import math
        if x < 0:
            raise ValueError("sqrt of negative")
        # keep exact: go symbolic unless perfect
        r = math.isqrt(x) if isinstance(x, int) else None
        if r is not None and r * r == x:
            return r
    t = _to_real(_lift(x))
    ct = z3.simplify(t)
    if z3.is_rational_value(ct):
        from fractions import Fraction
        fr = Fraction(ct.numerator_as_long(), ct.denominator_as_long())
        import math
        if fr >= 0:
            n, d = math.isqrt(fr.numerator), math.isqrt(fr.denominator)
            if n * n == fr.numerator and d * d == fr.denominator:
                return Sym(z3.RealVal(str(Fraction(n, d))))
    memo = cur().__dict__.setdefault("fnmemo", {})
    key = ("sqrt", ct.get_id())
    if key in memo:
        return memo[key][0]
    side_obligation("def:sqrt-nonneg", t >= 0)
    if cur().__dict__.get("fn_witness"):
        # functional form: sqrt as an uninterpreted function with its defining axiom instantiated at this argument.
        # Unlike a skolem constant it stays correct when a summation variable inside the argument is later substituted.
        r = _SQRT_F(ct)
        define(z3.Implies(ct >= 0, z3.And(r >= 0, r * r == ct)))
        memo[key] = (Sym(r), ct)
        return Sym(r)
    s = _witness("sqrt", False, lambda v: z3.And(v >= 0, v * v == t))
    memo[key] = (Sym(s), ct)
    return Sym(s)


def sym_pow(b, e):
    ce = concrete(e) if is_sym(e) else e
    if ce is None:
        raise Unsupported("symbolic exponent")
    if isinstance(ce, int) or (hasattr(ce, "denominator") and ce.denominator == 1):
        n = int(ce)
        if n >= 0:
            r = 1
            for _ in range(n):
                r = r * b
            return r
        return 1 / sym_pow(b, -n)
    from fractions import Fraction
    if Fraction(ce) == Fraction(1, 2):
        return sym_sqrt(b)
    if Fraction(ce) == Fraction(-1, 2):
        return 1 / sym_sqrt(b)
    raise Unsupported("exponent %r" % (ce,))


def sym_floor(x):
    """floor as an Int-valued Sym"""
    if not is_sym(x):
        import math
        return math.floor(x)
    t = _lift(x)
    if t.is_int():
        return S(x)
    memo = cur().__dict__.setdefault("fnmemo", {})
    key = ("floor", z3.simplify(t).get_id())
    if key in memo:
        return memo[key][0]
    if cur().__dict__.get("fn_witness"):
        ts = z3.simplify(t)
        r = _FLOOR_F(ts)          # functional form (see sym_sqrt): stays right when a summation variable inside t is substituted
        define(z3.And(z3.ToReal(r) <= ts, ts < z3.ToReal(r) + 1))
        memo[key] = (Sym(r), t)
        return Sym(r)
    r = _witness("floor", True, lambda v: z3.And(z3.ToReal(v) <= t, t < z3.ToReal(v) + 1))
    memo[key] = (Sym(r), t)
    return Sym(r)


def sym_ceil(x):
    if not is_sym(x):
        import math
        return math.ceil(x)
    t = _lift(x)
    if t.is_int():
        return S(x)
    memo = cur().__dict__.setdefault("fnmemo", {})
    key = ("ceil", z3.simplify(t).get_id())
    if key in memo:
        return memo[key][0]
    r = _witness("ceil", True, lambda v: z3.And(z3.ToReal(v) - 1 < t, t <= z3.ToReal(v)))
    memo[key] = (Sym(r), t)
    return Sym(r)


def sym_trunc(x):
    """python int(): truncation toward zero"""
    if not is_sym(x):
        return int(x)
    t = _lift(x)
    if t.is_int():
        return S(x)
    memo = cur().__dict__.setdefault("fnmemo", {})
    key = ("trunc", z3.simplify(t).get_id())
    if key in memo:
        return memo[key][0]
    r = _witness("trunc", True, lambda v: z3.If(t >= 0, z3.And(z3.ToReal(v) <= t, t < z3.ToReal(v) + 1),
                                                   z3.And(z3.ToReal(v) >= t, t > z3.ToReal(v) - 1)))
    memo[key] = (Sym(r), t)
    return Sym(r)


def sym_max(*xs):
    if len(xs) == 1:
        xs = list(xs[0])
    if not any(is_sym(x) for x in xs):
        return max(xs)
    r = xs[0]
    for x in xs[1:]:
        r = Sym(z3.simplify(z3.If(_lift(r) >= _lift(x), _lift(r), _lift(x))))
    return r


def sym_min(*xs):
    if len(xs) == 1:
        xs = list(xs[0])
    if not any(is_sym(x) for x in xs):
        return min(xs)
    r = xs[0]
    for x in xs[1:]:
        r = Sym(z3.simplify(z3.If(_lift(r) <= _lift(x), _lift(r), _lift(x))))
    return r


def sym_all(it):
    xs = list(it)
    if any(isinstance(x, SymBool) for x in xs):
        return And(*[x if isinstance(x, (SymBool, bool)) else bool(x) for x in xs])
    return all(xs)


def sym_any(it):
    xs = list(it)
    if any(isinstance(x, SymBool) for x in xs):
        return Or(*[x if isinstance(x, (SymBool, bool)) else bool(x) for x in xs])
    return any(xs)


def sym_sum(it, start=0):
    r = start
    for x in it:
        r = r + x
    return r


def sym_abs(x):
    return abs(x)


# ----------------------------------------------------------------------------- exploration
class PathResult:
    def __init__(self, ctx, kind, value):
        self.decisions = list(ctx.decisions)
        self.pc = list(ctx.pc)
        self.defs = list(ctx.defs)
        self.side = list(ctx.side)
        self.kind = kind          # 'return' | 'raise'
        self.value = value
        self.notes = list(ctx.notes)
        self.ctx = ctx

    def hyps(self):
        return self.pc + self.defs


class ForkInPost(Unsupported):
    pass


def explore(fn, max_paths=512, catch=(Exception,), prefixes=None, post=None):
    """Run fn() (which builds its own fresh symbolic inputs) along every feasible decision path.
    returns list of PathResult.  post (optional) is called with each PathResult INSIDE the path, so decisions it takes
    are explored like the function's own (its return value is stored as .post_value)."""
    results = []
    stack = [list(p) for p in prefixes] if prefixes is not None else [[]]
    n = 0
    while stack:
        prefix = stack.pop()
        ctx = Ctx(prefix)
        old = _CUR[0]
        _CUR[0] = ctx
        try:
            r = None
            try:
                try:
                    v = fn()
                    r = PathResult(ctx, "return", v)
                except PathAbort:
                    raise
                except Unsupported:
                    raise
                except BaseException as e:
                    if isinstance(e, (KeyboardInterrupt, SystemExit, GeneratorExit)):
                        raise
                    if type(e).__name__ == "NonLinear" or _is_code_exception(e):
                        r = PathResult(ctx, "raise", e)
                    else:
                        raise Unsupported("engine error: %s: %s" % (type(e).__name__, e)) from e
                r.fn = fn
                if post is not None:
                    r.post_value = post(r)
                results.append(r)
            except PathAbort:
                pass
        finally:
            _CUR[0] = old
            ctx.__dict__["finished"] = True
        stack.extend(ctx.pending)
        n += 1
        if n > max_paths:
            raise Unsupported("path explosion (> %d paths)" % max_paths)
    return results


def _is_code_exception(e):
    """an exception that the real code (or a modelled numpy operation) raises on this path,
    as opposed to a failure inside the engine's own stubs"""
    from .src import is_repo_frame
    from .snp import ModelledError
    if isinstance(e, ModelledError):
        return True
    tb = e.__traceback__
    last = None
    while tb is not None:
        last = tb
        tb = tb.tb_next
    return last is not None and is_repo_frame(last.tb_frame.f_code.co_filename)


class within:
    """context manager to re-enter a finished path's context (for post-processing that builds terms)"""

    def __init__(self, ctx):
        self.ctx = ctx

    def __enter__(self):
        self.old = _CUR[0]
        _CUR[0] = self.ctx
        return self.ctx

    def __exit__(self, *a):
        _CUR[0] = self.old
        return False


# ----------------------------------------------------------------------------- obligations
class Obligation:
    def __init__(self, name, hyps, goal, meta=None, witnesses=None):
        self.name = name
        self.hyps = [h for h in hyps]
        self.goal = goal if z3.is_expr(goal) else z3.BoolVal(bool(goal))
        self.meta = meta or {}

    def smt2(self):
        s = z3.Solver()
        s.add(*self.hyps)
        s.add(z3.Not(self.goal))
        return s.to_smt2()


def model_to_dict(m):
    out = {}
    for d in m.decls():
        if d.arity() == 0:
            out[d.name()] = str(m[d])
        else:
            out[d.name()] = str(m[d])
    return out


class _NoRelax(Exception):
    pass


def relax_ints(exprs, keep=()):
    """replace every Int constant (except those named in keep) by a Real constant: proves a more general
    statement (sound for unsat).  Refuses formulas with div/mod/to_int or uninterpreted functions over ints."""
    cache = {}
    keep = set(keep)

    def go(e):
        i = e.get_id()
        if i in cache:
            return cache[i]
        k = e.decl().kind() if z3.is_app(e) else None
        if z3.is_int_value(e):
            r = z3.RealVal(e.as_long())
        elif z3.is_const(e) and k == z3.Z3_OP_UNINTERPRETED:
            r = z3.Real(str(e) + "@R") if (e.sort() == z3.IntSort() and str(e) not in keep) else e
            if e.sort() == z3.IntSort() and str(e) in keep:
                raise _NoRelax()
        elif k == z3.Z3_OP_TO_REAL:
            r = go(e.arg(0))
        elif k in (z3.Z3_OP_IDIV, z3.Z3_OP_MOD, z3.Z3_OP_REM, z3.Z3_OP_TO_INT, z3.Z3_OP_IS_INT):
            raise _NoRelax()
        elif k == z3.Z3_OP_UNINTERPRETED:
            # an application f(args): abstracted by a fresh real constant per distinct term (drops functional
            # consistency between different argument tuples - a relaxation, sound for unsat)
            if e.sort() == z3.BoolSort():
                r = z3.Bool("app@%d" % i)
            else:
                r = z3.Real("app@%d" % i)
        else:
            ch = [go(c) for c in e.children()]
            if k == z3.Z3_OP_ADD:
                r = z3.Sum(ch)
            elif k == z3.Z3_OP_MUL:
                r = z3.Product(ch)
            elif k == z3.Z3_OP_SUB:
                r = ch[0] - z3.Sum(ch[1:]) if len(ch) > 1 else -ch[0]
            elif k == z3.Z3_OP_UMINUS:
                r = -ch[0]
            elif k == z3.Z3_OP_DIV:
                r = ch[0] / ch[1]
            elif k == z3.Z3_OP_LE:
                r = ch[0] <= ch[1]
            elif k == z3.Z3_OP_LT:
                r = ch[0] < ch[1]
            elif k == z3.Z3_OP_GE:
                r = ch[0] >= ch[1]
            elif k == z3.Z3_OP_GT:
                r = ch[0] > ch[1]
            elif k == z3.Z3_OP_EQ:
                r = ch[0] == ch[1]
            elif k == z3.Z3_OP_DISTINCT:
                r = z3.Distinct(*ch)
            elif k == z3.Z3_OP_ITE:
                r = z3.If(ch[0], ch[1], ch[2])
            elif k == z3.Z3_OP_AND:
                r = z3.And(*ch)
            elif k == z3.Z3_OP_OR:
                r = z3.Or(*ch)
            elif k == z3.Z3_OP_NOT:
                r = z3.Not(ch[0])
            elif k == z3.Z3_OP_IMPLIES:
                r = z3.Implies(ch[0], ch[1])
            elif k in (z3.Z3_OP_TRUE, z3.Z3_OP_FALSE) or z3.is_rational_value(e):
                r = e
            else:
                raise _NoRelax()
        cache[i] = r
        return r
    return [go(e) for e in exprs]


def _nlsat_relaxed(ob, timeout_ms):
    try:
        ex = relax_ints(list(ob.hyps) + [ob.goal])
    except _NoRelax:
        return None
    s = z3.Tactic("qfnra-nlsat").solver()
    s.set("timeout", timeout_ms)
    s.add(*ex[:-1])
    s.add(z3.Not(ex[-1]))
    try:
        r = s.check()
    except z3.Z3Exception:
        return None
    if r == z3.unsat:
        return dict(status="unsat", backend="z3-nlsat(int-relaxed)", model=None)
    return None          # sat over the reals proves nothing about the integer statement


def _uf_apps(e, acc, seen):
    if e.get_id() in seen:
        return
    seen.add(e.get_id())
    for c in e.children():
        _uf_apps(c, acc, seen)
    if z3.is_app(e) and e.num_args() > 0 and e.decl().kind() == z3.Z3_OP_UNINTERPRETED:
        acc.append(e)


def _poly_identity(g):
    """g is valid because it is (an implication / conjunction of) equalities whose two sides have the same
    sum-of-monomials normal form"""
    if z3.is_true(g):
        return True
    if z3.is_and(g):
        return all(_poly_identity(c) for c in g.children())
    if z3.is_implies(g):
        return _poly_identity(g.arg(1))
    if z3.is_eq(g) and g.arg(0).sort().kind() in (z3.Z3_INT_SORT, z3.Z3_REAL_SORT):
        if len(str(g)) > 40000:
            return False
        d = z3.simplify(g.arg(0) - g.arg(1), som=True)
        return z3.is_rational_value(d) and d.numerator_as_long() == 0
    return False


def _free_consts(e, acc, seen):
    if e.get_id() in seen:
        return
    seen.add(e.get_id())
    if z3.is_const(e) and e.decl().kind() == z3.Z3_OP_UNINTERPRETED:
        acc[e.get_id()] = e
    for c in e.children():
        _free_consts(c, acc, seen)


def _probably_different(x, y):
    """numeric refutation of x == y at two fixed pseudo-random points (only used to skip hopeless solver calls)"""
    acc = {}
    _free_consts(x, acc, set())
    _free_consts(y, acc, set())
    vs = sorted(acc.values(), key=lambda v: str(v))
    for trial in (1, 2):
        sub = []
        for i, v in enumerate(vs):
            val = 3 + ((i * 7 + trial * 5) % 11)
            sub.append((v, z3.IntVal(val) if v.sort().kind() == z3.Z3_INT_SORT else z3.RealVal("%d/%d" % (val * 2 + 1, 2))))
        try:
            a = z3.simplify(z3.substitute(x, *sub))
            b = z3.simplify(z3.substitute(y, *sub))
        except z3.Z3Exception:
            return False
        num = lambda t: z3.is_rational_value(t) or z3.is_int_value(t) or z3.is_algebraic_value(t)
        if num(a) and num(b) and not z3.is_true(z3.simplify(a == b)):
            return True
    return False


def _collect_dens(e, acc, seen):
    if e.get_id() in seen:
        return
    seen.add(e.get_id())
    if z3.is_app(e) and e.decl().kind() == z3.Z3_OP_DIV:
        acc.append(e.arg(1))
    for c in e.children():
        _collect_dens(c, acc, seen)


def _to_sympy(e, syms, nonzero):
    """z3 real/int arithmetic term without uninterpreted applications or if-then-else -> sympy expression (None if unsupported).
    x / d is a genuine quotient only for denominators proved non-zero (ids in `nonzero`); otherwise 1/d is kept as an opaque
    symbol (z3's division is total: 1/0 is some fixed value) and x/d with x != 1 is not supported."""
    import sympy
    if z3.is_rational_value(e):
        return sympy.Rational(e.numerator_as_long(), e.denominator_as_long())
    if z3.is_int_value(e):
        return sympy.Integer(e.as_long())
    if z3.is_const(e) and e.decl().kind() == z3.Z3_OP_UNINTERPRETED:
        k = ("c", e.get_id())
        if k not in syms:
            syms[k] = sympy.Symbol("v%d" % len(syms))
        return syms[k]
    if not z3.is_app(e):
        return None
    k = e.decl().kind()
    ch = e.children()
    if k == z3.Z3_OP_TO_REAL:
        return _to_sympy(ch[0], syms, nonzero)
    if k == z3.Z3_OP_DIV:
        num = _to_sympy(ch[0], syms, nonzero)
        if num is None:
            return None
        if ch[1].get_id() in nonzero:
            den = _to_sympy(ch[1], syms, nonzero)
            return None if den is None else num / den
        key = ("inv", z3.simplify(ch[1]).get_id())
        if key not in syms:
            syms[key] = sympy.Symbol("inv%d" % len(syms))
        if num == 1:
            return syms[key]
        return None
    args = [_to_sympy(c, syms, nonzero) for c in ch]
    if any(a_ is None for a_ in args):
        return None
    if k == z3.Z3_OP_ADD:
        return sympy.Add(*args)
    if k == z3.Z3_OP_MUL:
        return sympy.Mul(*args)
    if k == z3.Z3_OP_SUB:
        r = args[0]
        for a_ in args[1:]:
            r = r - a_
        return r
    if k == z3.Z3_OP_UMINUS:
        return -args[0]
    if k == z3.Z3_OP_POWER and z3.is_int_value(ch[1]) and ch[1].as_long() >= 0:
        return args[0] ** ch[1].as_long()
    return None


def _rational_identity(g, hyps):
    """g is (an implication of) an equality of two rational functions of the constants that is an identity; quotients are
    formed only over denominators PROVED non-zero under the hypotheses.  Decided by sympy's rational normal form (cancel)."""
    pre = []
    while z3.is_implies(g):
        pre.append(g.arg(0))
        g = g.arg(1)
    if not (z3.is_eq(g) and g.arg(0).sort().kind() in (z3.Z3_INT_SORT, z3.Z3_REAL_SORT)) or len(str(g)) > 20000:
        return False
    dens = []
    _collect_dens(g, dens, set())
    nonzero, tried = set(), set()
    for d in dens:
        if d.get_id() in tried:
            continue
        tried.add(d.get_id())
        if z3.is_rational_value(d) or z3.is_int_value(d):
            if not z3.is_true(z3.simplify(d == 0)):
                nonzero.add(d.get_id())
            continue
        sv = z3.Solver()
        sv.set("timeout", 1500)
        sv.add(*hyps)
        sv.add(*pre)
        sv.add(d == 0)
        if sv.check() == z3.unsat:
            nonzero.add(d.get_id())
    syms = {}
    a, b = _to_sympy(g.arg(0), syms, nonzero), _to_sympy(g.arg(1), syms, nonzero)
    if a is None or b is None:
        return False
    import sympy
    try:
        return sympy.cancel(sympy.together(a - b)) == 0
    except Exception:
        return False


def _ite_conditions(e, acc, seen):
    if e.get_id() in seen:
        return
    seen.add(e.get_id())
    if z3.is_app_of(e, z3.Z3_OP_ITE):
        c = e.arg(0)
        if all(not c.eq(x) for x in acc):
            acc.append(c)
    for ch in e.children():
        _ite_conditions(ch, acc, seen)


def _poly_identity_by_cases(goal, hyps):
    """like _poly_identity, after a case split over the (few) if-then-else conditions occurring in the equality;
    an assignment of the conditions under which the two sides differ must be infeasible under the hypotheses"""
    import itertools
    g = goal
    pre = []
    while z3.is_implies(g):
        pre.append(g.arg(0))
        g = g.arg(1)
    if not (z3.is_eq(g) and g.arg(0).sort().kind() in (z3.Z3_INT_SORT, z3.Z3_REAL_SORT)):
        return False
    conds = []
    _ite_conditions(g, conds, set())
    if not conds or len(conds) > 5 or len(str(g)) > 40000:
        return False
    for vals in itertools.product((True, False), repeat=len(conds)):
        sub = [(c, z3.BoolVal(v)) for c, v in zip(conds, vals)]
        gi = z3.simplify(z3.substitute(g, *sub))
        if z3.is_true(gi) or _poly_identity(gi):
            continue
        sv = z3.Solver()
        sv.set("timeout", 1500)
        sv.add(*hyps)
        sv.add(*pre)
        sv.add(*[c if v else z3.Not(c) for c, v in zip(conds, vals)])
        if sv.check() != z3.unsat:
            return False
    return True


def _congruence_abstracted(ob, timeout_ms, poly_only=False):
    """tactic for goals that are equalities of products containing uninterpreted function applications whose arguments
    are equal only up to arithmetic (polynomial identities, x/c vs x*(1/c) with c != 0):
    bottom-up, applications of the same function whose arguments are PROVED equal under the hypotheses are replaced by
    one fresh constant (every other application by its own constant) in hypotheses and goal alike.  The abstracted
    obligation generalises the original one, so unsat carries over; anything else is discarded."""
    import time
    t_end = time.time() + timeout_ms / 1000.0
    hyps, goal = list(ob.hyps), ob.goal

    def _is_light(h):
        if len(str(h)) > 400:
            return False
        acc = []
        _uf_apps(h, acc, set())
        return not acc
    light = [h for h in hyps if _is_light(h)]      # bounds and definitions of ceil / div witnesses: enough for c != 0 side conditions
    # one model of the hypotheses: two arguments that differ in it are certainly not provably equal (sound pruning)
    model = None
    for hy in (hyps, light):
        sm = z3.Solver()
        sm.set("timeout", 1500)
        sm.add(*hy)
        if sm.check() == z3.sat:
            model = sm.model()
            break

    def differ_in_model(x, y):
        if model is None:
            return _probably_different(x, y)
        try:
            return z3.is_false(z3.simplify(model.eval(x == y, model_completion=True)))
        except z3.Z3Exception:
            return False
    merged = [0]
    for _round in range(6):
        apps = []
        _uf_apps(goal, apps, set())
        # innermost first: applications none of whose arguments contains another application
        def has_inner(a):
            inner = []
            for c in a.children():
                _uf_apps(c, inner, set())
            return bool(inner)
        leaves = [a for a in apps if not has_inner(a)]
        if not leaves:
            break
        classes = []     # list of lists of apps
        for a in leaves:
            placed = False
            for cl in classes:
                b = cl[0]
                if not b.decl().eq(a.decl()):
                    continue
                if a.eq(b):
                    placed = True
                    break
                eqs = [x == y for x, y in zip(a.children(), b.children()) if not x.eq(y)]
                ok = True
                for e_ in eqs:
                    d = z3.simplify(e_.arg(0) - e_.arg(1), som=True) if e_.arg(0).sort().kind() in (z3.Z3_INT_SORT, z3.Z3_REAL_SORT) else None
                    if d is not None and z3.is_rational_value(d) and d.numerator_as_long() == 0:
                        continue
                    if time.time() > t_end:
                        return None
                    x_, y_ = z3.simplify(e_.arg(0)), z3.simplify(e_.arg(1))
                    if (z3.is_rational_value(x_) or z3.is_int_value(x_)) and (z3.is_rational_value(y_) or z3.is_int_value(y_)):
                        ok = False          # two different numerals
                        break
                    proved = False
                    if differ_in_model(x_, y_):
                        ok = False
                        break
                    # different at random points: equality can only come from simple facts of the hypotheses (k == 0, n == 1 ...)
                    plan = ((light, 700),) if _probably_different(x_, y_) else (([], 500), (light, 1500), (hyps, 1500))
                    for hy, budget in plan:
                        sv = z3.Solver()
                        sv.set("timeout", budget)
                        sv.add(*hy)
                        sv.add(z3.Not(e_))
                        if sv.check() == z3.unsat:
                            proved = True
                            break
                    if not proved:
                        ok = False
                        break
                if ok:
                    cl.append(a)
                    placed = True
                    break
            if not placed:
                classes.append([a])
        sub = []
        for cl in classes:
            c = z3.FreshConst(cl[0].sort(), "uf")
            if len(cl) > 1:
                merged[0] += 1
            for a in cl:
                sub.append((a, c))
        goal = z3.substitute(goal, *sub)
        hyps = [z3.substitute(h, *sub) for h in hyps]
    if goal.eq(ob.goal):
        return None
    if _poly_identity(goal):
        return dict(status="unsat", backend="congruence-abstraction+polynomial-normal-form", model=None)
    if _poly_identity_by_cases(goal, light):
        return dict(status="unsat", backend="congruence-abstraction+case-split+polynomial-normal-form", model=None)
    light_abs = [h for h in hyps if len(str(h)) <= 400]
    if _rational_identity(goal, light_abs):
        return dict(status="unsat", backend="congruence-abstraction+rational-normal-form(sympy)", model=None)
    if poly_only:
        return None
    import os as _os
    if _os.environ.get("PYVC_DEBUG_CONGR"):
        print("CONGR-ABSTRACTED GOAL", ob.name[-60:], "\n", goal)
    if not merged[0]:
        return None          # nothing was identified: the later phases do at least as well on the original obligation
    t_end = min(t_end, time.time() + 4.0)
    s = z3.Solver()
    s.set("timeout", max(1000, int((t_end - time.time()) * 1000)))
    s.add(*hyps)
    s.add(z3.Not(goal))
    if s.check() == z3.unsat:
        return dict(status="unsat", backend="z3(congruence-abstracted)", model=None)
    ex = None
    try:
        ex = relax_ints(hyps + [goal])
    except _NoRelax:
        return None
    s2 = z3.Tactic("qfnra-nlsat").solver()
    s2.set("timeout", max(1000, int((t_end - time.time()) * 1000)))
    s2.add(*ex[:-1])
    s2.add(z3.Not(ex[-1]))
    try:
        if s2.check() == z3.unsat:
            return dict(status="unsat", backend="z3-nlsat(congruence-abstracted)", model=None)
    except z3.Z3Exception:
        pass
    return None


def _congr_by_cases(ob, timeout_ms):
    """case split over the if-then-else conditions of an equality BEFORE the congruence abstraction: inside a case the
    conditions are hypotheses, so applications such as m(k0, t) and m(1, t) are merged when the case says k0 == 1."""
    import itertools, time
    t_end = time.time() + timeout_ms / 1000.0
    g = ob.goal
    pre = []
    while z3.is_implies(g):
        pre.append(g.arg(0))
        g = g.arg(1)
    if not (z3.is_eq(g) and g.arg(0).sort().kind() in (z3.Z3_INT_SORT, z3.Z3_REAL_SORT)):
        return None
    conds = []
    _ite_conditions(g, conds, set())
    if not conds or len(conds) > 4 or len(str(g)) > 40000:
        return None
    light = [h for h in ob.hyps if len(str(h)) <= 400]
    for vals in itertools.product((True, False), repeat=len(conds)):
        if time.time() > t_end:
            return None
        asg = [c if v else z3.Not(c) for c, v in zip(conds, vals)]
        sv = z3.Solver()
        sv.set("timeout", 1500)
        sv.add(*light)
        sv.add(*pre)
        sv.add(*asg)
        if sv.check() == z3.unsat:
            continue                       # this combination of conditions cannot occur
        gi = z3.simplify(z3.substitute(g, *[(c, z3.BoolVal(v)) for c, v in zip(conds, vals)]))
        if z3.is_true(gi) or _poly_identity(gi):
            continue
        sub = Obligation(ob.name, list(ob.hyps) + pre + asg, gi, ob.meta)
        r = _congruence_abstracted(sub, max(500, int((t_end - time.time()) * 1000)), poly_only=True)
        if r is None:
            return None
    return dict(status="unsat", backend="case-split+congruence-abstraction+polynomial-normal-form", model=None)


def discharge(ob, timeout_ms=10000, use_cvc5=True):
    """returns dict(status= 'unsat'|'sat'|'unknown', backend, time_s, model)"""
    import time
    t0 = time.time()
    reason = None
    for phase, budget in (("congr0", 3000), ("quick", min(timeout_ms, 2500)), ("congr", timeout_ms), ("reseed1", min(timeout_ms, 2500)), ("reseed2", min(timeout_ms, 2500)),
                          ("nlsat", timeout_ms), ("full", timeout_ms)):
        if phase == "congr" and timeout_ms <= 2500:
            continue
        if phase.startswith("reseed") and timeout_ms <= 2500:
            continue
        if phase in ("nlsat", "congr", "congr0"):
            if phase == "nlsat":
                r1 = _nlsat_relaxed(ob, budget)
            elif phase == "congr0":
                # cheap and deterministic: equalities that become polynomial identities once equal kernel applications are named
                g_ = ob.goal.arg(1) if z3.is_implies(ob.goal) else ob.goal
                r1 = None
                if z3.is_eq(g_) and g_.arg(0).sort().kind() == z3.Z3_REAL_SORT and len(str(g_)) < 30000:
                    try:
                        r1 = _congruence_abstracted(ob, 3000, poly_only=True)
                        if r1 is None:
                            r1 = _congr_by_cases(ob, 6000)
                    except z3.Z3Exception:
                        r1 = None
            else:
                try:
                    r1 = _congruence_abstracted(ob, budget)
                except z3.Z3Exception:
                    r1 = None
            if r1 is not None:
                r1["time_s"] = time.time() - t0
                return r1
            continue
        if phase == "full" and timeout_ms <= 2500:
            break
        s = z3.Solver()
        s.set("timeout", budget)
        if phase.startswith("reseed"):
            # nonlinear queries that are instant with one variable order can diverge with another: retry before the long phases
            s.set("random_seed", int(phase[-1]) * 7919)
        s.add(*ob.hyps)
        s.add(z3.Not(ob.goal))
        r = s.check()
        dt = time.time() - t0
        if r == z3.unsat:
            return dict(status="unsat", backend="z3", time_s=dt, model=None)
        if r == z3.sat:
            return dict(status="sat", backend="z3", time_s=dt, model=model_to_dict(s.model()), z3model=s.model())
        reason = s.reason_unknown()
    if use_cvc5:
        r2 = _cvc5(ob.smt2(), timeout_ms)
        if r2 is not None:
            r2["time_s"] = time.time() - t0
            return r2
    return dict(status="unknown", backend="z3", time_s=time.time() - t0, model=None, reason=reason)


def _cvc5(smt2, timeout_ms):
    import subprocess, tempfile, os
    txt = "(set-logic ALL)\n(set-option :produce-models true)\n" + smt2
    if "(check-sat)" not in txt:
        txt += "\n(check-sat)\n"
    txt += "\n(get-model)\n"
    with tempfile.NamedTemporaryFile("w", suffix=".smt2", delete=False) as f:
        f.write(txt)
        path = f.name
    try:
        p = subprocess.run(["/usr/bin/cvc5", "--tlimit=%d" % timeout_ms, "--nl-ext-tplanes", path],
                           capture_output=True, text=True, timeout=timeout_ms / 1000 + 10)
        out = p.stdout.strip().splitlines()
        if out and out[0].strip() == "unsat":
            return dict(status="unsat", backend="cvc5", model=None)
        if out and out[0].strip() == "sat":
            return dict(status="sat", backend="cvc5", model={"cvc5": "\n".join(out[1:])[:4000]})
        return None
    except Exception:
        return None
    finally:
        os.unlink(path)
