"""pyvc: contract verification of the real sigpy sources (see /verif/DESIGN.md)."""
