"""Extraction of the real code: parse /repo with `ast` on every run, record file/lines/sha256 of every
function put under contract, compile the (transformed) AST and execute it in a stubbed namespace.

What is dropped / rewritten (exhaustive, also listed in DESIGN.md section 2):
  * module-level `import` statements (names are provided by the namespace given by the caller);
  * decorators whose expression starts with `nb.` / `cuda.` (numba): the Python body is kept verbatim;
  * nothing else.  Docstrings are kept (they are expression statements without effect).
"""
import ast
import hashlib
import os

REPO = os.environ.get("PYVC_REPO", "/repo")
TAG = "<repo>/"


class Source:
    _cache = {}

    def __init__(self, rel):
        self.rel = rel
        self.path = os.path.join(REPO, rel)
        with open(self.path) as f:
            self.text = f.read()
        self.tree = ast.parse(self.text, filename=self.path)
        self.lines = self.text.splitlines()
        self.index = {}
        self._walk(self.tree.body, "")

    @classmethod
    def get(cls, rel):
        key = (REPO, rel)
        if key not in cls._cache:
            cls._cache[key] = Source(rel)
        return cls._cache[key]

    def _walk(self, body, prefix):
        for n in body:
            if isinstance(n, (ast.FunctionDef, ast.ClassDef)):
                q = prefix + n.name
                self.index[q] = n
                self._walk(n.body, q + ".")
            elif isinstance(n, (ast.If, ast.With, ast.Try)):
                self._walk(n.body, prefix)
                self._walk(getattr(n, "orelse", []), prefix)

    def node(self, qual):
        if qual not in self.index:
            raise KeyError("%s not found in %s" % (qual, self.rel))
        return self.index[qual]

    def segment(self, qual):
        n = self.node(qual)
        start = min([n.lineno] + [d.lineno for d in getattr(n, "decorator_list", [])])
        return "\n".join(self.lines[start - 1:n.end_lineno]), start, n.end_lineno

    def record(self, qual):
        seg, a, b = self.segment(qual)
        return dict(function=self.rel[:-3].replace("/", ".") + "." + qual, file=self.rel, lines=[a, b],
                    sha256=hashlib.sha256(seg.encode()).hexdigest()[:16])


class _Strip(ast.NodeTransformer):
    def __init__(self, drop_imports=True, keep_vectorize=False):
        self.drop_imports = drop_imports
        self.keep_vectorize = keep_vectorize
        self.depth = 0

    def _decos(self, node):
        keep = []
        for d in node.decorator_list:
            s = ast.unparse(d)
            if s.startswith("nb.vectorize") and self.keep_vectorize:
                keep.append(d)       # the namespace supplies an elementwise-map `nb.vectorize`
                continue
            if s.startswith("nb.") or s.startswith("cuda.") or s.startswith("numba."):
                continue
            keep.append(d)
        node.decorator_list = keep

    def visit_FunctionDef(self, node):
        self._decos(node)
        self.depth += 1
        self.generic_visit(node)
        self.depth -= 1
        return node

    def visit_ClassDef(self, node):
        self.generic_visit(node)
        return node

    def visit_BinOp(self, node):
        self.generic_visit(node)
        # int / int literals (1 / 3, 9 / 8): exact rationals, not their double approximation (floats are reals)
        if isinstance(node.op, ast.Div) and all(isinstance(x, ast.Constant) and isinstance(x.value, int) and not isinstance(x.value, bool)
                                                 for x in (node.left, node.right)):
            return ast.copy_location(ast.Call(func=ast.Name(id="__pyvc_frac", ctx=ast.Load()), args=[node.left, node.right], keywords=[]), node)
        return node

    def visit_Import(self, node):
        if self.depth == 0 and self.drop_imports:
            return None
        return node

    visit_ImportFrom = visit_Import


def _assigned_names(stmts):
    out = set()
    for st in stmts:
        for n in ast.walk(st):
            if isinstance(n, ast.Name) and isinstance(n.ctx, ast.Store):
                out.add(n.id)
    return out


def _carried(body, target_names):
    """names that are loop-carried: augmented-assigned, or (possibly) read before their first assignment in
    one pass over the body, following evaluation order"""
    assigned = _assigned_names(body) - set(target_names)
    carried = set()
    done = set(target_names)

    def reads(expr):
        for n in ast.walk(expr):
            if isinstance(n, ast.Name) and isinstance(n.ctx, ast.Load) and n.id in assigned and n.id not in done:
                carried.add(n.id)

    def stores(tgt):
        for n in ast.walk(tgt):
            if isinstance(n, ast.Name) and isinstance(n.ctx, ast.Store):
                done.add(n.id)
            elif isinstance(n, ast.Name) and isinstance(n.ctx, ast.Load):
                reads(n)

    def visit(stmts):
        for st in stmts:
            if isinstance(st, ast.Assign):
                reads(st.value)
                for t in st.targets:
                    stores(t)
            elif isinstance(st, ast.AugAssign):
                reads(st.value)
                if isinstance(st.target, ast.Name):
                    carried.add(st.target.id)
                else:
                    reads(st.target)
            elif isinstance(st, ast.AnnAssign):
                if st.value is not None:
                    reads(st.value)
                stores(st.target)
            elif isinstance(st, ast.For):
                reads(st.iter)
                stores(st.target)
                visit(st.body)
                visit(st.orelse)
            elif isinstance(st, ast.While):
                reads(st.test)
                visit(st.body)
                visit(st.orelse)
            elif isinstance(st, ast.If):
                reads(st.test)
                before = set(done)
                visit(st.body)
                after_body = set(done)
                done.clear()
                done.update(before)
                visit(st.orelse)
                # a name counts as assigned after the if only when both branches assign it
                both = after_body & set(done)
                done.clear()
                done.update(both | before)
            elif isinstance(st, ast.With):
                for it in st.items:
                    reads(it.context_expr)
                    if it.optional_vars is not None:
                        stores(it.optional_vars)
                visit(st.body)
            elif isinstance(st, (ast.Expr, ast.Return)):
                if st.value is not None:
                    reads(st.value)
            elif isinstance(st, (ast.Pass, ast.Break, ast.Continue)):
                pass
            else:
                for n in ast.walk(st):
                    if isinstance(n, ast.expr):
                        reads(n)
                        break
                carried.update(_assigned_names([st]))
    visit(body)
    return sorted(carried)


class LoopRewrite(ast.NodeTransformer):
    """mechanical desugaring used for loop-nest summarisation (DESIGN 4.2):
       for t in it: body         ->  for t in __pyvc_iter(it, (<loop-carried names>)): body
       X[i] op= v                ->  __pyvc_augstore(X, i, 'op', v)
       if c: A else: B  (inside a for body)  ->  guarded execution when c depends on a generic loop variable
       a and b / a or b / not a  ->  __pyvc_and(lambda: a, lambda: b) ...: Python's short-circuit evaluation for concrete
                                     operands, a symbolic conjunction (no path fork) otherwise"""

    def __init__(self):
        self.loop = 0
        self.n = 0

    def visit_FunctionDef(self, node):
        old, self.loop = self.loop, 0
        oldf, self.fn = getattr(self, "fn", None), node
        self.generic_visit(node)
        self.loop = old
        self.fn = oldf
        return node

    def visit_For(self, node):
        tn = {n.id for n in ast.walk(node.target) if isinstance(n, ast.Name)}
        carried = _carried(node.body, tn)
        self.loop += 1
        self.generic_visit(node)
        self.loop -= 1
        node.iter = ast.Call(func=ast.Name(id="__pyvc_iter", ctx=ast.Load()),
                             args=[node.iter, ast.Constant(value=tuple(carried))], keywords=[])
        return node

    def visit_AugAssign(self, node):
        self.generic_visit(node)
        if isinstance(node.target, ast.Subscript):
            tgt = node.target
            call = ast.Call(func=ast.Name(id="__pyvc_augstore", ctx=ast.Load()),
                            args=[tgt.value, tgt.slice, ast.Constant(value=type(node.op).__name__), node.value], keywords=[])
            return ast.copy_location(ast.Expr(value=call), node)
        return node

    def visit_BoolOp(self, node):
        self.generic_visit(node)
        fn = "__pyvc_and" if isinstance(node.op, ast.And) else "__pyvc_or"
        lam = [ast.Lambda(args=ast.arguments(posonlyargs=[], args=[], kwonlyargs=[], kw_defaults=[], defaults=[]), body=v)
               for v in node.values]
        return ast.copy_location(ast.Call(func=ast.Name(id=fn, ctx=ast.Load()), args=lam, keywords=[]), node)

    def visit_UnaryOp(self, node):
        self.generic_visit(node)
        if isinstance(node.op, ast.Not):
            return ast.copy_location(ast.Call(func=ast.Name(id="__pyvc_not", ctx=ast.Load()), args=[node.operand], keywords=[]), node)
        return node

    def visit_If(self, node):
        self.generic_visit(node)
        if self.loop == 0:
            return node
        self.n += 1
        g = "__pyvc_g%d" % self.n
        unsafe = any(isinstance(n, (ast.Break, ast.Continue, ast.Return)) for st in node.body + node.orelse for n in ast.walk(st))
        names = _assigned_names(node.body + node.orelse)
        if names and getattr(self, "fn", None) is not None and not node.orelse:
            # assignments under the guard are harmless when the names are never read outside the guarded block
            inside = {id(n) for st in node.body for n in ast.walk(st)}
            outside_reads = {n.id for n in ast.walk(self.fn) if isinstance(n, ast.Name) and isinstance(n.ctx, ast.Load)
                             and id(n) not in inside}
            names = names & outside_reads
        names = sorted(n for n in names if not n.startswith("__pyvc_"))
        cond = ast.Call(func=ast.Name(id="__pyvc_cond", ctx=ast.Load()),
                        args=[node.test, ast.Constant(value=bool(unsafe)), ast.Constant(value=tuple(names))], keywords=[])
        assign = ast.Assign(targets=[ast.Name(id=g, ctx=ast.Store())], value=cond)
        gl = lambda: ast.Name(id=g, ctx=ast.Load())
        is_t = ast.Compare(left=gl(), ops=[ast.Is()], comparators=[ast.Constant(value=True)])
        is_f = ast.Compare(left=gl(), ops=[ast.Is()], comparators=[ast.Constant(value=False)])
        guarded = [ast.With(items=[ast.withitem(context_expr=gl())], body=node.body)]
        if node.orelse:
            neg = ast.Call(func=ast.Attribute(value=gl(), attr="neg", ctx=ast.Load()), args=[], keywords=[])
            guarded.append(ast.With(items=[ast.withitem(context_expr=neg)], body=node.orelse))
        inner = ast.If(test=is_f, body=node.orelse or [ast.Pass()], orelse=guarded)
        outer = ast.If(test=is_t, body=node.body, orelse=[inner])
        return [ast.copy_location(assign, node), ast.copy_location(outer, node)]


class WhileOnce(ast.NodeTransformer):
    """`while c: body`  ->  `for _ in (None,): if not c: break; body`  : ONE generic iteration from the (caller-supplied)
    generic pre-state; `break` / `continue` keep their meaning.  Used with an inductive invariant: the caller sets up an
    arbitrary state satisfying the invariant and checks it after the body."""

    def visit_While(self, node):
        self.generic_visit(node)
        guard = ast.If(test=ast.UnaryOp(op=ast.Not(), operand=node.test), body=[ast.Break()], orelse=[])
        loop = ast.For(target=ast.Name(id="__pyvc_once", ctx=ast.Store()), iter=ast.Tuple(elts=[ast.Constant(value=None)], ctx=ast.Load()),
                       body=[guard] + node.body, orelse=node.orelse or [])
        return ast.copy_location(loop, node)


class ForInvariant(ast.NodeTransformer):
    """for t in it: body     (loop-carried names c1..cn found by the dataflow pass)
         ->   (c1..cn) = __pyvc_loop_enter(k, names, (c1..cn))      # init obligation; returns a generic state satisfying the invariant
              for t in __pyvc_once(k, it): body                     # ONE generic iteration, t arbitrary in the range
              (c1..cn) = __pyvc_loop_exit(k, names, (c1..cn))       # preservation obligation; returns a generic state for the code after the loop
       applied only to loops whose ordinal is listed (sidecar: function name, loop ordinal)"""

    def __init__(self, which):
        self.which = which          # {function name: [loop ordinals]}
        self.fn = None
        self.count = 0

    def visit_FunctionDef(self, node):
        old = (self.fn, self.count)
        self.fn, self.count = node.name, 0
        self.generic_visit(node)
        self.fn, self.count = old
        return node

    def visit_For(self, node):
        k = self.count
        self.count += 1
        self.generic_visit(node)
        if self.fn not in self.which or k not in self.which[self.fn]:
            return node
        tn = {n.id for n in ast.walk(node.target) if isinstance(n, ast.Name)}
        names = _carried(node.body, tn)
        if not names:
            return node
        tup_l = lambda: ast.Tuple(elts=[ast.Name(id=n, ctx=ast.Load()) for n in names], ctx=ast.Load())
        tup_s = lambda: ast.Tuple(elts=[ast.Name(id=n, ctx=ast.Store()) for n in names], ctx=ast.Store())
        key = ast.Constant(value="%s#%d" % (self.fn, k))
        nm = ast.Constant(value=tuple(names))
        enter = ast.Assign(targets=[tup_s()], value=ast.Call(func=ast.Name(id="__pyvc_loop_enter", ctx=ast.Load()), args=[key, nm, tup_l()], keywords=[]))
        node.iter = ast.Call(func=ast.Name(id="__pyvc_once", ctx=ast.Load()), args=[key, node.iter], keywords=[])
        exit_ = ast.Assign(targets=[tup_s()], value=ast.Call(func=ast.Name(id="__pyvc_loop_exit", ctx=ast.Load()), args=[key, nm, tup_l()], keywords=[]))
        return [ast.copy_location(enter, node), node, ast.copy_location(exit_, node)]


def for_invariant(which):
    return lambda tree: ForInvariant(which).visit(tree)


def while_once(tree):
    return WhileOnce().visit(tree)


def loop_rewrite(tree):
    return LoopRewrite().visit(tree)


def load_module(rel, ns, transforms=(), only=None):
    """exec the real module AST (minus imports / numba decorators) in namespace ns.
    only: optional iterable of top-level names to keep (defs/classes/assignments)."""
    src = Source.get(rel)
    tree = ast.parse(src.text, filename=src.path)
    tree = _Strip(keep_vectorize=("nb" in ns and ns["nb"] is not None)).visit(tree)
    for t in transforms:
        tree = t(tree) or tree
    if only is not None:
        only = set(only)
        body = []
        for n in tree.body:
            if isinstance(n, (ast.FunctionDef, ast.ClassDef)) and n.name in only:
                body.append(n)
            elif isinstance(n, ast.Assign) and any(isinstance(t, ast.Name) and t.id in only for t in n.targets):
                body.append(n)
        tree.body = body
    else:
        # drop module-level conditionals on optional back ends (config.cupy_enabled ...) -- they are
        # executed normally: the stub `config` has every optional back end disabled.
        pass
    ast.fix_missing_locations(tree)
    code = compile(tree, TAG + rel, "exec")
    ns.setdefault("__name__", rel[:-3].replace("/", "."))
    exec(code, ns)
    return ns


def load_nested(rel, outer_qual, names, ns):
    """mechanical extraction of functions defined INSIDE another function of the real module (closures): the nested
    FunctionDef nodes named `names` inside `outer_qual` (e.g. 'EspiritCalib.__init__') are compiled, unchanged, as
    top-level functions of namespace ns.  What the extraction drops: the enclosing scope - the closure's free variables
    must be supplied by ns (the contract states which values they stand for)."""
    src = Source.get(rel)
    tree = ast.parse(src.text, filename=src.path)
    tree = _Strip(keep_vectorize=False).visit(tree)
    node = tree
    for part in outer_qual.split("."):
        nxt = None
        for n in node.body:
            if isinstance(n, (ast.FunctionDef, ast.ClassDef)) and n.name == part:
                nxt = n
                break
        if nxt is None:
            raise KeyError("no %s in %s" % (outer_qual, rel))
        node = nxt
    found = []
    for n in ast.walk(node):
        if isinstance(n, ast.FunctionDef) and n.name in names and n is not node:
            found.append(n)
    if sorted(f.name for f in found) != sorted(names):
        raise KeyError("nested functions %s not all found in %s:%s" % (names, rel, outer_qual))
    mod = ast.Module(body=found, type_ignores=[])
    ast.fix_missing_locations(mod)
    exec(compile(mod, TAG + rel, "exec"), ns)
    return ns


def is_repo_frame(filename):
    return filename.startswith(TAG)
