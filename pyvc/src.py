"""Extraction of the real code: parse /repo with `ast` on every run, record file/lines/sha256 of every
function put under contract, compile the (transformed) AST and execute it in a stubbed namespace.

What is dropped / rewritten (exhaustive, also listed in DESIGN.md section 2):
  * module-level `import` statements (names are provided by the namespace given by the caller);
  * decorators whose expression starts with `nb.` / `cuda.` (numba): the Python body is kept verbatim;
  * nothing else.  Docstrings are kept (they are expression statements without effect).
"""
import ast
import hashlib
import os

REPO = os.environ.get("PYVC_REPO", "/repo")
TAG = "<repo>/"


class Source:
    _cache = {}

    def __init__(self, rel):
        self.rel = rel
        self.path = os.path.join(REPO, rel)
        with open(self.path) as f:
            self.text = f.read()
        self.tree = ast.parse(self.text, filename=self.path)
        self.lines = self.text.splitlines()
        self.index = {}
        self._walk(self.tree.body, "")

    @classmethod
    def get(cls, rel):
        key = (REPO, rel)
        if key not in cls._cache:
            cls._cache[key] = Source(rel)
        return cls._cache[key]

    def _walk(self, body, prefix):
        for n in body:
            if isinstance(n, (ast.FunctionDef, ast.ClassDef)):
                q = prefix + n.name
                self.index[q] = n
                self._walk(n.body, q + ".")
            elif isinstance(n, (ast.If, ast.With, ast.Try)):
                self._walk(n.body, prefix)
                self._walk(getattr(n, "orelse", []), prefix)

    def node(self, qual):
        if qual not in self.index:
            raise KeyError("%s not found in %s" % (qual, self.rel))
        return self.index[qual]

    def segment(self, qual):
        n = self.node(qual)
        start = min([n.lineno] + [d.lineno for d in getattr(n, "decorator_list", [])])
        return "\n".join(self.lines[start - 1:n.end_lineno]), start, n.end_lineno

    def record(self, qual):
        seg, a, b = self.segment(qual)
        return dict(function=self.rel[:-3].replace("/", ".") + "." + qual, file=self.rel, lines=[a, b],
                    sha256=hashlib.sha256(seg.encode()).hexdigest()[:16])


class _Strip(ast.NodeTransformer):
    def __init__(self, drop_imports=True):
        self.drop_imports = drop_imports
        self.depth = 0

    def _decos(self, node):
        keep = []
        for d in node.decorator_list:
            s = ast.unparse(d)
            if s.startswith("nb.") or s.startswith("cuda.") or s.startswith("numba."):
                continue
            keep.append(d)
        node.decorator_list = keep

    def visit_FunctionDef(self, node):
        self._decos(node)
        self.depth += 1
        self.generic_visit(node)
        self.depth -= 1
        return node

    def visit_ClassDef(self, node):
        self.generic_visit(node)
        return node

    def visit_Import(self, node):
        if self.depth == 0 and self.drop_imports:
            return None
        return node

    visit_ImportFrom = visit_Import


def load_module(rel, ns, transforms=(), only=None):
    """exec the real module AST (minus imports / numba decorators) in namespace ns.
    only: optional iterable of top-level names to keep (defs/classes/assignments)."""
    src = Source.get(rel)
    tree = ast.parse(src.text, filename=src.path)
    tree = _Strip().visit(tree)
    for t in transforms:
        tree = t(tree) or tree
    if only is not None:
        only = set(only)
        body = []
        for n in tree.body:
            if isinstance(n, (ast.FunctionDef, ast.ClassDef)) and n.name in only:
                body.append(n)
            elif isinstance(n, ast.Assign) and any(isinstance(t, ast.Name) and t.id in only for t in n.targets):
                body.append(n)
        tree.body = body
    else:
        # drop module-level conditionals on optional back ends (config.cupy_enabled ...) -- they are
        # executed normally: the stub `config` has every optional back end disabled.
        pass
    ast.fix_missing_locations(tree)
    code = compile(tree, TAG + rel, "exec")
    ns.setdefault("__name__", rel[:-3].replace("/", "."))
    exec(code, ns)
    return ns


def is_repo_frame(filename):
    return filename.startswith(TAG)
