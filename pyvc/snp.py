"""Symbolic numpy: arrays with symbolic extents whose elements are complex *linear forms* over named
input arrays (domain E/X of DESIGN.md section 4).

Every function here is an ASSUMED CONTRACT of the corresponding numpy operation (listed in the
evidence as trusted base, and cross-checked natively by the conformance probes).
"""
import z3
from . import core
from .core import Sym, SymBool, S, Unsupported, _lift, concrete, cur, fresh_int, define, side_obligation


class ModelledError(Exception):
    """an exception the modelled numpy operation would raise"""


class SValueError(ModelledError, ValueError):
    pass


class SIndexError(ModelledError, IndexError):
    pass


class NonLinear(BaseException):
    """the code did something to an input array that is not C-linear (abs, real, product of inputs)"""


R0 = z3.RealVal(0)
R1 = z3.RealVal(1)


def _r(x):
    """to z3 Real"""
    if isinstance(x, Sym):
        return core._to_real(x.t)
    if z3.is_expr(x):
        return core._to_real(x)
    return core._to_real(_lift(x))


# ----------------------------------------------------------------------------- complex scalars
class C:
    """complex scalar as a pair of z3 reals"""
    __slots__ = ("re", "im")

    def __init__(self, re, im=None):
        self.re = _r(re)
        self.im = R0 if im is None else _r(im)

    @staticmethod
    def _scalar_like(x):
        return isinstance(x, (C, LF, Sym, SymBool, int, float, complex)) or z3.is_expr(x)

    @staticmethod
    def of(x):
        if isinstance(x, C):
            return x
        if isinstance(x, complex):
            return C(x.real, x.imag)
        if isinstance(x, LF):
            if x.terms:
                raise NonLinear("input-dependent value used as a coefficient")
            return x.const
        if isinstance(x, SymBool):
            return C(x._int())
        return C(x)

    def is_real(self):
        return z3.is_true(z3.simplify(self.im == 0))

    def is_zero(self):
        return z3.is_true(z3.simplify(z3.And(self.re == 0, self.im == 0)))

    def is_one(self):
        return z3.is_true(z3.simplify(z3.And(self.re == 1, self.im == 0)))

    def __add__(self, o):
        if isinstance(o, LF):
            return o + self
        if not C._scalar_like(o):
            return NotImplemented
        o = C.of(o)
        return C(z3.simplify(self.re + o.re), z3.simplify(self.im + o.im))

    __radd__ = __add__

    def __neg__(self):
        return C(-self.re, -self.im)

    def __sub__(self, o):
        if isinstance(o, LF):
            return (-o) + self
        o = C.of(o)
        return C(z3.simplify(self.re - o.re), z3.simplify(self.im - o.im))

    def __rsub__(self, o):
        return C.of(o) - self

    def __mul__(self, o):
        if isinstance(o, (LF, SArr)):
            return o * self
        if not C._scalar_like(o):
            return NotImplemented
        o = C.of(o)
        if o.is_real():
            return C(z3.simplify(self.re * o.re), z3.simplify(self.im * o.re))
        if self.is_real():
            return C(z3.simplify(self.re * o.re), z3.simplify(self.re * o.im))
        return C(z3.simplify(self.re * o.re - self.im * o.im), z3.simplify(self.re * o.im + self.im * o.re))

    __rmul__ = __mul__

    def __truediv__(self, o):
        o = C.of(o)
        if o.is_real():
            d = Sym(o.re)
            if self.is_real():
                return C((Sym(self.re) / d).t)
            return C((Sym(self.re) / d).t, (Sym(self.im) / d).t)
        n = self * o.conjugate()
        d = Sym(z3.simplify(o.re * o.re + o.im * o.im))
        return C((Sym(n.re) / d).t, (Sym(n.im) / d).t)

    def __rtruediv__(self, o):
        return C.of(o) / self

    def conjugate(self):
        return C(self.re, z3.simplify(-self.im))

    conj = conjugate

    @property
    def real(self):
        return Sym(self.re)

    @property
    def imag(self):
        return Sym(self.im)

    def abs2(self):
        return Sym(z3.simplify(self.re * self.re + self.im * self.im))

    def __abs__(self):
        if self.is_real():
            return abs(Sym(self.re))
        return core.sym_sqrt(self.abs2())

    def __eq__(self, o):
        if o is None:
            return False
        o = C.of(o)
        return SymBool(z3.And(self.re == o.re, self.im == o.im))

    def __ne__(self, o):
        r = self.__eq__(o)
        return core.Not(r)

    def __hash__(self):
        return hash((self.re, self.im))

    def _cmp_real(self):
        if not self.is_real():
            raise Unsupported("ordering comparison of a complex value")
        return Sym(self.re)

    def __lt__(self, o):
        return self._cmp_real() < C.of(o)._cmp_real()

    def __le__(self, o):
        return self._cmp_real() <= C.of(o)._cmp_real()

    def __gt__(self, o):
        return self._cmp_real() > C.of(o)._cmp_real()

    def __ge__(self, o):
        return self._cmp_real() >= C.of(o)._cmp_real()

    def __pow__(self, e):
        if self.is_real():
            return C(core.sym_pow(Sym(self.re), e))
        return core.sym_pow(self, e)

    def item(self):
        return Sym(self.re) if self.is_real() else self

    def __repr__(self):
        return "C(%s, %s)" % (self.re, self.im)

    @staticmethod
    def _ite(c, a, b):
        a, b = C.of(a), C.of(b)
        ct = core._lb(c)
        return C(z3.If(ct, a.re, b.re), z3.If(ct, a.im, b.im))


C0 = C(0)
C1 = C(1)


# ----------------------------------------------------------------------------- linear forms
class Binder:
    """a bound summation variable lo <= v < hi (z3 Int const)"""
    kind = "range"

    def __init__(self, v, lo, hi):
        self.v, self.lo, self.hi = v, lo, hi

    def range_cond(self):
        if self.lo is None or self.hi is None:
            return z3.BoolVal(True)          # unbounded summation variable: its range is given by guard conjuncts
        return z3.And(self.v >= _lift(self.lo), self.v < _lift(self.hi))


DefBinder = core.DefBinder


def bvars(b):
    return [b.q, b.r] if b.kind == "def" else [b.v]


class Term:
    __slots__ = ("binders", "guard", "coef", "atom", "idx", "conj")

    def __init__(self, binders, guard, coef, atom, idx, conj=False):
        self.binders = tuple(binders)
        self.guard = tuple(guard)        # conjunction of z3 Bools
        self.coef = coef                 # C
        self.atom = atom                 # name of the input array
        self.idx = tuple(idx)            # z3 Int terms
        self.conj = conj

    def scaled(self, c):
        return Term(self.binders, self.guard, self.coef * c, self.atom, self.idx, self.conj)

    def guarded(self, g):
        return Term(self.binders, self.guard + tuple(g), self.coef, self.atom, self.idx, self.conj)

    def conjugated(self):
        return Term(self.binders, self.guard, self.coef.conjugate(), self.atom, self.idx, not self.conj)


class LF:
    """const + sum of terms"""
    __slots__ = ("const", "terms")

    def __init__(self, const=C0, terms=()):
        self.const = C.of(const) if not isinstance(const, C) else const
        self.terms = list(terms)

    @staticmethod
    def of(x):
        if isinstance(x, LF):
            return x
        return LF(C.of(x))

    def is_value(self):
        return not self.terms

    # numpy-scalar look-alikes (a full reduction returns a scalar)
    shape = ()
    ndim = 0
    size = 1

    @property
    def dtype(self):
        return CDT

    def item(self):
        return self.value().item()

    def value(self):
        if self.terms:
            raise NonLinear("non-linear use of an input element")
        return self.const

    def __add__(self, o):
        o = LF.of(o)
        return LF(self.const + o.const, self.terms + o.terms)

    __radd__ = __add__

    def __neg__(self):
        return self * C(-1)

    def __sub__(self, o):
        return self + (-LF.of(o))

    def __rsub__(self, o):
        return LF.of(o) - self

    def __mul__(self, o):
        if isinstance(o, SArr):
            return NotImplemented
        o = LF.of(o)
        if o.terms and self.terms:
            raise NonLinear("product of two input-dependent values")
        if o.terms:
            self, o = o, self
        c = o.const
        if c.is_one():
            return self
        return LF(self.const * c, [t.scaled(c) for t in self.terms])

    __rmul__ = __mul__

    def __truediv__(self, o):
        o = LF.of(o)
        if o.terms:
            raise NonLinear("division by an input-dependent value")
        inv = C1 / o.const
        return self * inv

    def __rtruediv__(self, o):
        return LF.of(o) / self

    def _real_value(self, what):
        if self.terms:
            raise NonLinear("%s of an input-dependent value" % what)
        return self.const._cmp_real()

    def __floordiv__(self, o):
        return LF(C(core.sym_floordiv(self._real_value("//"), LF.of(o)._real_value("//"))))

    def __rfloordiv__(self, o):
        return LF.of(o) // self

    def __mod__(self, o):
        return LF(C(core.sym_mod(self._real_value("%"), LF.of(o)._real_value("%"))))

    def __rmod__(self, o):
        return LF.of(o) % self

    def conjugate(self):
        return LF(self.const.conjugate(), [t.conjugated() for t in self.terms])

    # value-only operations (non-linear in an input element -> NonLinear)
    def __abs__(self):
        return abs(self.value())

    def __lt__(self, o):
        return self.value() < LF.of(o).value()

    def __le__(self, o):
        return self.value() <= LF.of(o).value()

    def __gt__(self, o):
        return self.value() > LF.of(o).value()

    def __ge__(self, o):
        return self.value() >= LF.of(o).value()

    def guarded(self, g):
        """multiply by the indicator of z3 Bool g"""
        gc = C(z3.If(g, self.const.re, R0), z3.If(g, self.const.im, R0))
        if self.const.is_zero():
            gc = C0
        return LF(gc, [t.guarded([g]) for t in self.terms])

    @staticmethod
    def _ite(c, a, b):
        ct = core._lb(c)
        a, b = LF.of(a), LF.of(b)
        return a.guarded(ct) + b.guarded(z3.Not(ct))

    def __repr__(self):
        return "LF(%s + %d terms)" % (self.const, len(self.terms))


def atom_elem(name, idx, valued=False):
    """element of a named input array at index idx"""
    idx = tuple(_lift(i) for i in idx)
    if valued:
        sorts = [z3.IntSort()] * len(idx) + [z3.RealSort()]
        fre = z3.Function(name + "_re", *sorts)
        if valued == "real":
            return LF(C(fre(*idx)))
        if valued == "nonneg":
            # instance, at this index, of the precondition  forall idx. name[idx] >= 0
            core.define(fre(*idx) >= 0)
            return LF(C(fre(*idx)))
        fim = z3.Function(name + "_im", *sorts)
        return LF(C(fre(*idx), fim(*idx)))
    return LF(C0, [Term((), (), C1, name, idx)])


def coef_of(lf, atom, t, conj=False):
    """coefficient (C) of atom[t] in the linear form, for binder-free terms, or after one-point elimination.
    returns (C, leftover_terms) where leftover terms still carry binders."""
    re, im = R0, R0
    left = []
    for term in lf.terms:
        if term.atom != atom or term.conj != conj:
            if term.atom == atom:
                left.append(term)
            continue
        tm = eliminate_binders(term, extra_eq=list(zip(term.idx, t)))
        if tm is None:
            left.append(term)
            continue
        g = z3.And(*(list(tm.guard) + [i == _lift(ti) for i, ti in zip(tm.idx, t)])) if (tm.guard or t) else z3.BoolVal(True)
        re = re + z3.If(g, tm.coef.re, R0)
        im = im + z3.If(g, tm.coef.im, R0)
    return C(z3.simplify(re), z3.simplify(im)), left


def _contains(e, v):
    if e.eq(v):
        return True
    return any(_contains(c, v) for c in e.children())


def _solve_for(eq_l, eq_r, v):
    """try to solve  eq_l == eq_r  for the z3 Int const v when it occurs linearly with coefficient +-1 on one side"""
    for a, b in ((eq_l, eq_r), (eq_r, eq_l)):
        if a.eq(v) and not _contains(b, v):
            return b
        # a = v + c  or c + v
        if z3.is_add(a) and not _contains(b, v):
            ch = a.children()
            hits = [i for i, c in enumerate(ch) if c.eq(v)]
            if len(hits) == 1 and not any(_contains(c, v) for i, c in enumerate(ch) if i != hits[0]):
                rest = [c for i, c in enumerate(ch) if i != hits[0]]
                return z3.simplify(b - z3.Sum(rest) if len(rest) > 1 else b - rest[0])
        if z3.is_sub(a) and not _contains(b, v) and len(a.children()) == 2:
            l, r = a.children()
            if l.eq(v) and not _contains(r, v):
                return z3.simplify(b + r)
            if r.eq(v) and not _contains(l, v):
                return z3.simplify(l - b)
    return None


def eliminate_binders(term, extra_eq=()):
    """generalised one-point rule (see partial_eliminate); returns a binder-free Term or None when a bound variable
    survives.  The index equalities are NOT folded into the returned guard (callers add them)."""
    if not term.binders:
        return term
    remaining, guard, coef = partial_eliminate(term, extra_eq)
    if remaining:
        return None
    # recover substituted indices: re-run the substitution on idx through a probe term
    return Term((), [guard], coef, term.atom, [ _lift(b) for _, b in extra_eq ] if len(extra_eq) == len(term.idx) else list(term.idx), term.conj)


# ----------------------------------------------------------------------------- arrays
def _ext(x):
    """normalise an extent"""
    if isinstance(x, Sym):
        v = concrete(x)
        return v if isinstance(v, int) else x
    if isinstance(x, int):
        return x
    if hasattr(x, "__index__"):
        return int(x)
    raise Unsupported("bad extent %r" % (x,))


def _same(a, b):
    """decide a == b for extents, forking if needed"""
    if isinstance(a, int) and isinstance(b, int):
        return a == b
    return bool(S(a) == S(b))


def _note_write(arr):
    """a write into an array that a contract marked as protected (the caller's input of an operator): recorded as a failed
    obligation of the code under contract, wherever the write happens (directly or through a view)"""
    root = arr.base if (getattr(arr, "base", None) is not None and getattr(arr, "wmap", None) is not None) else arr
    tag = getattr(root, "_protected", None)
    if tag:
        core.side_obligation("no-write-into-the-caller's-array(%s)" % tag, z3.BoolVal(False))


def _is_one(a):
    if isinstance(a, int):
        return a == 1
    r = bool(S(a) == 1)
    if r:
        # lemma: a product of extents (non-negative integers) equal to 1 has every factor equal to 1
        for f in (getattr(a, "factors", None) or ()):
            if isinstance(f, Sym):
                core.define(z3.Implies(z3.And(*[_lift(g) >= 0 for g in a.factors]), f.t == 1))
    return r


class DType:
    """kind: 'c' complex, 'f' float, 'i' int, 'b' bool ; bits: 64/128 (complex), 32/64 (float) or None = unknown width"""

    def __init__(self, kind, bits=None):
        self.kind, self.bits = kind, bits

    def __eq__(self, o):
        if o is self:
            return True
        if not isinstance(o, DType):
            try:
                o = as_dtype(o)
            except Exception:
                return False
        if o.kind != self.kind:
            return False
        if self.bits is None or o.bits is None:
            return self.bits is None and o.bits is None and self is o
        return self.bits == o.bits

    def __ne__(self, o):
        return not self.__eq__(o)

    def __hash__(self):
        return hash((self.kind, self.bits))

    def __repr__(self):
        return "dtype(%s%s)" % (self.kind, self.bits or "?")


CDT = DType("c")
FDT = DType("f")
IDT = DType("i")
BDT = DType("b")


class SArr:
    """symbolic ndarray.  `_elem(idx)` maps a tuple of z3 Int terms to an LF.  Mutation replaces `_elem`
    (so `.copy()` snapshots), views read through to their base at read time and write through it."""
    __array_priority__ = 1000

    def __init__(self, shape, elem, dtype=CDT, base=None, wmap=None, name=None):
        self.shape = tuple(_ext(s) for s in shape)
        self._elem = elem
        self.dtype = dtype
        self.base = base          # view of
        self.wmap = wmap          # idx(view) -> (idx(base), in-range z3 Bool) for write-through
        self.name = name
        self.readonly = False
        self.struct = None        # closed-form description for sums/max: ('const', v) | ('affine', a, b) | ('concat', [arrays])

    # --- construction helpers
    @staticmethod
    def input(name, shape, valued=False, dtype=CDT):
        return SArr(shape, lambda k: atom_elem(name, k, valued), dtype, name=name)

    @staticmethod
    def full(shape, value, dtype=CDT):
        v = LF.of(value)
        return SArr(shape, lambda k: v, dtype)

    @property
    def ndim(self):
        return len(self.shape)

    @property
    def size(self):
        return prod(self.shape)

    def elem(self, idx):
        idx = tuple(_lift(i) for i in idx)
        if len(idx) != self.ndim:
            raise Unsupported("rank mismatch in elem()")
        if self.base is not None and self.wmap is not None:
            bidx, _ = self.wmap(idx)
            return self.base.elem(bidx)
        if self.__dict__.get("_stale"):
            raise Unsupported("read of an array that was modified through a view the engine does not track")
        return self._elem(idx)

    def in_box(self, idx):
        return z3.And(*[z3.And(_lift(i) >= 0, _lift(i) < _lift(n)) for i, n in zip(idx, self.shape)]) if idx else z3.BoolVal(True)

    def _set_elem(self, f):
        """in-place update: new elem function f(idx, old_elem_fn)"""
        if self.base is not None and self.wmap is not None:
            view = self
            base = self.base
            raise Unsupported("write through a view (not modelled in domain E)")
        old = self._elem
        self._elem = lambda k: f(k, old)

    def copy(self):
        if self.base is not None and self.wmap is not None:
            b, w = self.base, self.wmap
            snap = b._snapshot()
            return SArr(self.shape, lambda k: snap(w(k)[0]), self.dtype)
        return SArr(self.shape, self._elem, self.dtype)

    def _snapshot(self):
        if self.base is not None and self.wmap is not None:
            b, w = self.base._snapshot(), self.wmap
            return lambda k: b(w(k)[0])
        if self.__dict__.get("_stale"):
            raise Unsupported("read of an array that was modified through a view the engine does not track")
        return self._elem

    def astype(self, dtype, copy=True):
        return SArr(self.shape, self._snapshot(), as_dtype(dtype))

    # --- views
    def _view(self, shape, wmap):
        root, rmap = self, wmap
        if self.base is not None and self.wmap is not None:
            inner = self.wmap
            root = self.base
            rmap = lambda k: inner(wmap(k)[0])
        v = SArr(shape, None, self.dtype, base=root, wmap=rmap)
        return v

    def reshape(self, *shape, **kw):
        if len(shape) == 1 and isinstance(shape[0], (list, tuple)):
            shape = shape[0]
        return reshape(self, shape)

    def ravel(self):
        return reshape(self, [prod(self.shape)])

    flatten = ravel

    def transpose(self, *axes):
        if len(axes) == 1 and (axes[0] is None or isinstance(axes[0], (list, tuple)) or hasattr(axes[0], "__len__")):
            axes = axes[0]
        return transpose(self, axes)

    @property
    def T(self):
        return transpose(self, None)

    def swapaxes(self, a, b):
        ax = list(range(self.ndim))
        ax[a], ax[b] = ax[b], ax[a]
        return transpose(self, ax)

    def conj(self):
        return conj(self)

    conjugate = conj

    def sum(self, axis=None, keepdims=False):
        return sum_(self, axis=axis, keepdims=keepdims)

    def item(self):
        if self.ndim != 0 and not all(isinstance(s, int) and s == 1 for s in self.shape):
            raise SValueError("can only convert an array of size 1 to a Python scalar")
        v = self.elem((0,) * self.ndim).value()
        return v.item()

    @property
    def real(self):
        return elementwise(self, lambda v: LF(C(v.value().re)), FDT)

    @property
    def imag(self):
        return elementwise(self, lambda v: LF(C(v.value().im)), FDT)

    # --- indexing
    def __getitem__(self, idx):
        if self.__dict__.get("_pending"):
            raise Unsupported("read of an array that is being written inside the same generic loop nest")
        if cur().binders:
            sidx = _scalar_index(self, idx)
            if sidx is not None:
                return self.elem(sidx)
        shape, fmap = _index_map(self.shape, idx)
        if shape is None:     # scalar element
            return self.elem(fmap(())[0])
        v = self._view(shape, fmap)
        if self.base is None:
            v._view_of = (self, idx)      # lets in-place arithmetic on the view write through (numpy semantics)
        return v

    def __setitem__(self, idx, value):
        if self.readonly:
            raise SValueError("assignment destination is read-only")
        c = cur()
        if c.binders:
            sidx = _scalar_index(self, idx)
            if sidx is None:
                raise Unsupported("slice store inside a generic loop iteration")
            self._loopstore(LoopStore(c.binders, c.__dict__.get("guards", []), sidx, LF.of(value), "="))
            return
        if isinstance(idx, SArr) and idx.dtype == BDT:
            # a[mask] = scalar : elementwise if-then-else (mask has the array's shape)
            if len(idx.shape) != len(self.shape) or isinstance(value, SArr):
                raise Unsupported("boolean-mask store with a broadcast mask or an array value")
            msnap = idx._snapshot()
            v = LF.of(value)
            self._set_elem(lambda k, old: LF._ite(SymBool(msnap(k).value().re != 0), v, old(k)))
            return
        shape, fmap = _index_map(self.shape, idx)
        _note_write(self)
        tgt = self
        if self.base is not None and self.wmap is not None:
            inner = self.wmap
            tgt = self.base
            outer = fmap
            fmap = lambda k: inner(outer(k)[0])
        if shape is None:
            shape = ()
        inv = _inverse_index(self.shape if tgt is self else None, idx) if tgt is self else None
        if inv is None:
            raise Unsupported("store pattern not invertible in domain E: %r" % (idx,))
        if isinstance(value, SArr):
            vshape = value.shape
            bshape = broadcast_shapes(shape, vshape)
            if len(bshape) != len(shape) or not all(_same(a, b) for a, b in zip(bshape, shape)):
                raise SValueError("could not broadcast input array into shape")
            vsnap = value._snapshot()
            proj = _bmap(vshape, len(shape), shape)      # decided now (not lazily): unit-extent axes of the value broadcast

            def val_at(k):
                return vsnap(proj(k))
        else:
            v = LF.of(value)
            val_at = lambda k: v

        def f(k, old):
            inwin, kk = inv(k)
            return LF._ite(SymBool(inwin), val_at(kk), old(k))
        tgt._set_elem(f)

    # --- arithmetic
    def _binop(self, o, f, rev=False, kind=None):
        if isinstance(o, SArr):
            a, b = (o, self) if rev else (self, o)
            return broadcast2(a, b, f)
        if o is None:
            return NotImplemented
        ov = LF.of(o)
        if rev:
            r = elementwise(self, lambda v: f(ov, v))
        else:
            r = elementwise(self, lambda v: f(v, ov))
        r.struct = _struct_map(self, (lambda v: f(ov, v)) if rev else (lambda v: f(v, ov)), kind)
        return r

    def __add__(self, o):
        return self._binop(o, lambda a, b: a + b, kind="add")

    def __radd__(self, o):
        return self._binop(o, lambda a, b: a + b, rev=True, kind="add")

    def __sub__(self, o):
        return self._binop(o, lambda a, b: a - b, kind="add")

    def __rsub__(self, o):
        return self._binop(o, lambda a, b: a - b, rev=True)

    def __mul__(self, o):
        return self._binop(o, lambda a, b: a * b, kind="mul")

    def __rmul__(self, o):
        return self._binop(o, lambda a, b: a * b, rev=True, kind="mul")

    def __truediv__(self, o):
        return self._binop(o, lambda a, b: a / b, kind="mul")

    def __rtruediv__(self, o):
        return self._binop(o, lambda a, b: a / b, rev=True)

    def __neg__(self):
        r = elementwise(self, lambda v: -v)
        r.struct = _struct_map(self, lambda v: -v, "mul")
        if self.name:
            r.name = "neg(%s)" % self.name        # a deterministic name: abstract kernels are keyed by the arrays they depend on
        return r

    def __pow__(self, e):
        return elementwise(self, lambda v: LF(v.value() ** e))

    def _compare(self, o, f):
        """elementwise comparison: a 0/1-valued array (numpy bool array), no path fork"""
        def g(a, b):
            return LF(C._ite(f(a.value(), b.value()), C1, C0))
        r = self._binop(o, g)
        r.dtype = DType("b", 8)
        return r

    def __gt__(self, o):
        return self._compare(o, lambda a, b: a > b)

    def __lt__(self, o):
        return self._compare(o, lambda a, b: a < b)

    def __ge__(self, o):
        return self._compare(o, lambda a, b: a >= b)

    def __le__(self, o):
        return self._compare(o, lambda a, b: a <= b)

    def _inplace(self, o, f):
        if self.readonly:
            raise SValueError("output array is read-only")
        res = self._binop(o, f)
        if len(res.shape) != len(self.shape) or not all(_same(a, b) for a, b in zip(res.shape, self.shape)):
            raise SValueError("non-broadcastable output operand")
        _note_write(self)
        snap = res._snapshot()
        if self.base is not None and self.wmap is not None:
            vo = self.__dict__.get("_view_of")
            if vo is None:
                # a view the engine cannot write through (transpose / view of a view): this object keeps the new values
                # itself; the underlying array becomes unreadable (any later read of it is refused, never answered wrongly)
                root = self.base
                self.base, self.wmap = None, None
                self._elem = snap
                root._stale = True
                return self
            parent, idx = vo
            parent[idx] = res.copy()       # write-through: the view keeps reading its (now updated) base
            return self
        self._elem = snap
        return self

    def __iadd__(self, o):
        return self._inplace(o, lambda a, b: a + b)

    def __isub__(self, o):
        return self._inplace(o, lambda a, b: a - b)

    def __imul__(self, o):
        return self._inplace(o, lambda a, b: a * b)

    def __itruediv__(self, o):
        return self._inplace(o, lambda a, b: a / b)

    def __mod__(self, o):
        return self._binop(o, lambda a, b: a % b)

    def __floordiv__(self, o):
        return self._binop(o, lambda a, b: a // b)

    def __imod__(self, o):
        return self._inplace(o, lambda a, b: a % b)

    def __ifloordiv__(self, o):
        return self._inplace(o, lambda a, b: a // b)

    def __matmul__(self, o):
        return matmul(self, o)

    def __abs__(self):
        return _np_abs(self)

    def max(self, axis=None):
        if axis is not None:
            raise Unsupported("max over an axis")
        return abstract_max(self)

    def _cmp(self, o, f):
        def g(a, b):
            r = f(LF.of(a).value()._cmp_real(), LF.of(b).value()._cmp_real())
            return LF(C(Sym(z3.If(core._lb(r), z3.IntVal(1), z3.IntVal(0)))))
        r = self._binop(o, g)
        r.dtype = BDT
        return r

    def __lt__(self, o):
        return self._cmp(o, lambda a, b: a < b)

    def __le__(self, o):
        return self._cmp(o, lambda a, b: a <= b)

    def __gt__(self, o):
        return self._cmp(o, lambda a, b: a > b)

    def __ge__(self, o):
        return self._cmp(o, lambda a, b: a >= b)

    def __len__(self):
        if not self.shape:
            raise TypeError("len() of unsized object")
        return self.shape[0] if isinstance(self.shape[0], int) else self.shape[0].__index__()

    def __repr__(self):
        return "SArr(shape=%s)" % (self.shape,)

    def __bool__(self):
        raise Unsupported("truth value of an array")


def _struct_map(a, g, kind):
    """propagate the closed-form description through an elementwise map with a scalar (g is affine in its argument)"""
    st = a.struct
    if st is None or kind is None:
        return None
    if st[0] == "const":
        return ("const", g(LF.of(st[1])))
    if st[0] == "affine":
        a0 = g(LF.of(st[1]))
        if kind == "add":
            return ("affine", a0, st[2])
        # multiplicative: slope scales like the value with zero offset
        b = g(LF.of(st[1]) + LF.of(st[2])) - a0
        return ("affine", a0, b)
    if st[0] == "concat":
        parts = []
        for p in st[1]:
            ps = _struct_map(p, g, kind)
            if ps is None:
                return None
            q = SArr(p.shape, None)
            q.struct = ps
            parts.append(q)
        return ("concat", parts)
    return None


def struct_sum(a):
    st = a.struct
    n = prod(a.shape)
    if st is None:
        return None
    if st[0] == "const":
        return LF.of(st[1]) * C.of(n)
    if st[0] == "affine":
        nn = S(n)
        return LF.of(st[1]) * C.of(nn) + LF.of(st[2]) * C.of(nn * (nn - 1) / 2)
    if st[0] == "concat":
        acc = LF()
        for p in st[1]:
            ps = struct_sum(p)
            if ps is None:
                return None
            acc = acc + ps
        return acc
    return None


def struct_max(a):
    st = a.struct
    if st is None:
        return None
    n = prod(a.shape)
    if not isinstance(n, int) or n < 1:
        side_obligation("def:max-of-nonempty-array", _lift(n) >= 1)
    if st[0] == "const":
        return LF.of(st[1])
    return None


def as_dtype(d):
    if isinstance(d, DType):
        return d
    import numpy as _np
    if isinstance(d, str) and d in ("complex64", "complex128", "float32", "float64"):
        return DType(d[0], int("".join(ch for ch in d if ch.isdigit())))
    try:
        dt = _np.dtype(d)
    except Exception:
        return CDT
    if dt.kind in "cf":
        return DType(dt.kind, dt.itemsize * 8)
    return {"i": IDT, "u": IDT, "b": BDT}.get(dt.kind, CDT)


def prod(shape, dtype=None):
    r = 1
    facs = []
    for s in shape:
        r = r * s
        facs.append(s)
    if isinstance(r, Sym):
        r = Sym(r.t, factors=tuple(facs))
    return r


def elementwise(a, f, dtype=None):
    snap = a._snapshot()
    return SArr(a.shape, lambda k: f(snap(k)), dtype or a.dtype)


def broadcast_shapes(sa, sb):
    n = max(len(sa), len(sb))
    sa1 = (1,) * (n - len(sa)) + tuple(sa)
    sb1 = (1,) * (n - len(sb)) + tuple(sb)
    out = []
    for x, y in zip(sa1, sb1):
        if _provable_same(x, y) or _same(x, y):
            out.append(x)
        elif _is_one(x):
            out.append(y)
        elif _is_one(y):
            out.append(x)
        else:
            raise SValueError("operands could not be broadcast together")
    return tuple(out)


def _bmap(shape, n, target=None):
    """index projection for broadcasting an array of `shape` to rank n (target: the broadcast shape, when known:
    an axis whose extent is provably the target extent needs no unit-extent case split)"""
    off = n - len(shape)
    ones = []
    for d, s_ in enumerate(shape):
        if target is not None and not (isinstance(s_, int) and s_ == 1) and _provable_same(s_, target[off + d]) \
                and not _provable(_lift(s_) == 1):
            ones.append(False)
        else:
            ones.append(_is_one(s_))
    return lambda k: tuple(z3.IntVal(0) if ones[d] else k[off + d] for d in range(len(shape)))


def broadcast2(a, b, f):
    shape = broadcast_shapes(a.shape, b.shape)
    n = len(shape)
    pa, pb = _bmap(a.shape, n, shape), _bmap(b.shape, n, shape)
    sa, sb = a._snapshot(), b._snapshot()
    dt = CDT if CDT in (a.dtype, b.dtype) else a.dtype
    return SArr(shape, lambda k: f(sa(pa(k)), sb(pb(k))), dt)


def conj(a):
    if isinstance(a, SArr):
        return elementwise(a, lambda v: v.conjugate())
    if isinstance(a, (C, LF)):
        return a.conjugate()
    return a


# --- indexing ---------------------------------------------------------------------------------
def _norm_slice(sl, n):
    """numpy slice semantics on symbolic values. returns (start, step, length) as Sym/int"""
    step = 1 if sl.step is None else sl.step
    if isinstance(step, Sym):
        cs = concrete(step)
        if cs is not None:
            step = cs
    if isinstance(step, Sym):
        if bool(step > 0):
            pos = True
        elif bool(step < 0):
            pos = False
        else:
            raise SValueError("slice step cannot be zero")
    else:
        if step == 0:
            raise SValueError("slice step cannot be zero")
        pos = step > 0
    nS = S(n)
    if sl.start is None and sl.stop is None and isinstance(step, int) and step == 1:
        return 0, 1, n          # the whole axis: extents of arrays are >= 0 by construction

    def clip(v, lo, hi):
        v = S(v)
        return Sym(z3.simplify(z3.If(v.t < _lift(lo), _lift(lo), z3.If(v.t > _lift(hi), _lift(hi), v.t))))

    def wrapneg(v):
        v = S(v)
        return Sym(z3.If(v.t < 0, v.t + nS.t, v.t))
    if pos:
        start = 0 if sl.start is None else clip(wrapneg(sl.start), 0, n)
        stop = n if sl.stop is None else clip(wrapneg(sl.stop), 0, n)
        diff = S(stop) - S(start)
        if isinstance(step, int) and step == 1:
            length = Sym(z3.simplify(z3.If(diff.t > 0, diff.t, z3.IntVal(0))))
        else:
            q = (diff + step - 1) // step
            length = Sym(z3.simplify(z3.If(diff.t > 0, _lift(q), z3.IntVal(0))))
    else:
        start = (S(n) - 1) if sl.start is None else clip(wrapneg(sl.start), -1, S(n) - 1)
        stop = -1 if sl.stop is None else clip(wrapneg(sl.stop), -1, S(n) - 1)
        diff = S(start) - S(stop)
        q = (diff + (-step) - 1) // (-step)
        length = Sym(z3.simplify(z3.If(diff.t > 0, _lift(q), z3.IntVal(0))))
    return _ext(S(start)) if not isinstance(start, int) else start, step, _ext(length)


def _expand_index(shape, idx):
    if not isinstance(idx, tuple):
        idx = (idx,)
    idx = list(idx)
    n_specified = sum(1 for i in idx if i is not None and i is not Ellipsis)
    if any(i is Ellipsis for i in idx):
        p = [j for j, i in enumerate(idx) if i is Ellipsis][0]
        idx[p:p + 1] = [slice(None)] * (len(shape) - n_specified)
    else:
        idx += [slice(None)] * (len(shape) - n_specified)
    if sum(1 for i in idx if i is not None) > len(shape):
        raise SIndexError("too many indices for array")
    return idx


def _index_map(shape, idx):
    """basic indexing. returns (view shape | None for scalar, fmap: view idx -> (base idx, True))"""
    idx = _expand_index(shape, idx)
    oshape = []
    comps = []     # per base axis: ('int', i) | ('slice', start, step, outaxis)
    d = 0
    for i in idx:
        if i is None:
            oshape.append(1)
            continue
        n = shape[d]
        if isinstance(i, slice):
            start, step, length = _norm_slice(i, n)
            comps.append(("slice", start, step, len(oshape)))
            oshape.append(length)
        elif isinstance(i, (int, Sym)) or hasattr(i, "__index__"):
            if not isinstance(i, Sym):
                i = int(i)
            iv = S(i)
            if not bool(core.And(iv >= -S(n), iv < S(n))):
                raise SIndexError("index out of bounds")
            iv = Sym(z3.simplify(z3.If(iv.t < 0, iv.t + _lift(n), iv.t)))
            comps.append(("int", iv))
        elif isinstance(i, (list, tuple)) and i and all(isinstance(q, int) and not isinstance(q, bool) for q in i) \
                and not any(isinstance(j, (list, tuple)) for j in idx if j is not i):
            # one integer-list index (numpy advanced indexing along a single axis; the result axis stays in place)
            vals = []
            for q in i:
                qv = S(q)
                if not bool(core.And(qv >= -S(n), qv < S(n))):
                    raise SIndexError("index out of bounds")
                vals.append(z3.simplify(z3.If(qv.t < 0, qv.t + _lift(n), qv.t)))
            comps.append(("list", vals, len(oshape)))
            oshape.append(len(vals))
        else:
            raise Unsupported("advanced indexing with %r" % (type(i),))
        d += 1
    scalar = not oshape and all(c[0] == "int" for c in comps)

    def fmap(k):
        out = []
        for c in comps:
            if c[0] == "int":
                out.append(_lift(c[1]))
            elif c[0] == "list":
                sel = c[1][-1]
                for pos in range(len(c[1]) - 2, -1, -1):
                    sel = z3.If(_lift(k[c[2]]) == pos, c[1][pos], sel)
                out.append(z3.simplify(sel))
            else:
                out.append(z3.simplify(_lift(c[1]) + k[c[3]] * _lift(c[2])))
        return tuple(out), z3.BoolVal(True)
    return (None if scalar else tuple(oshape)), fmap


def _inverse_index(shape, idx):
    """for stores: base idx k -> (in-window z3 Bool, view idx)"""
    idx = _expand_index(shape, idx)
    comps = []
    d = 0
    nview = 0
    for i in idx:
        if i is None:
            nview += 1
            continue
        n = shape[d]
        if isinstance(i, slice):
            start, step, length = _norm_slice(i, n)
            full = i.start is None and i.stop is None and isinstance(step, int) and step == 1
            comps.append(("slice", start, step, length, nview, full))
            nview += 1
        else:
            iv = S(i)
            if not bool(core.And(iv >= -S(n), iv < S(n))):
                raise SIndexError("index out of bounds")
            iv = Sym(z3.simplify(z3.If(iv.t < 0, iv.t + _lift(n), iv.t)))
            comps.append(("int", iv))
        d += 1

    def inv(k):
        conds = []
        vk = [z3.IntVal(0)] * nview
        for c, kd in zip(comps, k):
            if c[0] == "int":
                conds.append(kd == _lift(c[1]))
            else:
                _, start, step, length, pos, full = c
                st = _lift(step)
                cst = concrete(S(step))
                if full:
                    j = kd              # the whole axis: every valid element index is inside the window
                elif cst == 1:
                    j = z3.simplify(kd - _lift(start))
                    conds.append(z3.And(j >= 0, j < _lift(length)))
                elif cst == -1:
                    j = z3.simplify(_lift(start) - kd)
                    conds.append(z3.And(j >= 0, j < _lift(length)))
                else:
                    j = fresh_int("j")
                    # exists j: kd == start + j*step, 0<=j<length ; j is determined: use divmod witness
                    off = Sym(z3.simplify(kd - _lift(start)))
                    q, r = core._divmod(off, S(step))
                    j = q
                    conds.append(z3.And(r == 0, j >= 0, j < _lift(length)))
                vk[pos] = j
        return (z3.And(*conds) if conds else z3.BoolVal(True)), tuple(vk)
    return inv


# --- shape manipulation -----------------------------------------------------------------------
def _drop_ones(shape):
    """positions of axes whose extent is not (provably, on this path) 1"""
    out = []
    for d, s in enumerate(shape):
        if isinstance(s, int):
            if s != 1:
                out.append(d)
        elif not _provable(_lift(s) == 1):
            out.append(d)
    return out


def _provable_same(a, b):
    if isinstance(a, int) and isinstance(b, int):
        return a == b
    return _provable(_lift(a) == _lift(b))


def reshape(a, shape):
    if isinstance(shape, (int, Sym)):
        shape = [shape]
    shape = [(_ext(s) if not (isinstance(s, int) and s == -1) else -1) for s in shape]
    if any(isinstance(s, int) and s == -1 for s in shape):
        known = prod([s for s in shape if not (isinstance(s, int) and s == -1)])
        tot = prod(a.shape)
        q = tot // known if not (isinstance(tot, int) and isinstance(known, int)) else tot // known
        shape = [q if (isinstance(s, int) and s == -1) else s for s in shape]
    old = a.shape
    ko, kn = _drop_ones(old), _drop_ones(shape)
    # case 1: same non-unit extents in order
    if len(ko) == len(kn) and all(_provable_same(old[i], shape[j]) for i, j in zip(ko, kn)):
        def wmap(k, ko=ko, kn=kn, r=len(old)):
            out = [z3.IntVal(0)] * r
            for i, j in zip(ko, kn):
                out[i] = k[j]
            return tuple(out), z3.BoolVal(True)
        v = a._view(tuple(shape), wmap)
        v.struct = a.struct
        return v
    # unit extents that are symbolic-but-provably-1 : fall through to the general flat map
    return _reshape_general(a, shape)


def _strides(shape):
    st = []
    acc = 1
    for s in reversed(shape):
        st.append(acc)
        acc = acc * s
    return list(reversed(st)), acc


def _reshape_general(a, shape):
    old = a.shape
    so, to = _strides(old)
    sn, tn = _strides(shape)
    if not _same(to, tn):
        raise SValueError("cannot reshape array of size into shape")

    def wmap(k):
        flat = 0
        for kd, s in zip(k, sn):
            flat = flat + Sym(kd) * s
        out = []
        rem = S(flat)
        for d, n in enumerate(old):
            if d == len(old) - 1:
                out.append(_lift(rem))
            else:
                q, r = core._divmod(rem, S(so[d]))
                out.append(q)
                rem = Sym(r)
        return tuple(out), z3.BoolVal(True)
    return a._view(tuple(shape), wmap)


def transpose(a, axes=None):
    if axes is None:
        axes = list(range(a.ndim))[::-1]
    axes = [int(x) for x in axes]
    n = a.ndim
    if sorted(x % n for x in axes) != list(range(n)) or any(x < -n or x >= n for x in axes):
        raise SValueError("axes don't match array")
    axes = [x % n for x in axes]
    shape = tuple(a.shape[x] for x in axes)

    def wmap(k):
        out = [None] * n
        for j, x in enumerate(axes):
            out[x] = k[j]
        return tuple(out), z3.BoolVal(True)
    return a._view(shape, wmap)


def roll(a, shift, axis=None):
    if axis is None:
        raise Unsupported("roll without axis")
    if isinstance(axis, (list, tuple)):
        for s, ax in zip(shift, axis):
            a = roll(a, s, ax)
        return a
    ax = int(axis)
    if ax < -a.ndim or ax >= a.ndim:
        raise SValueError("axis out of bounds")
    ax %= a.ndim
    n = a.shape[ax]
    snap = a._snapshot()

    def el(k):
        src = core.sym_mod(Sym(k[ax]) - shift, n)
        kk = list(k)
        kk[ax] = _lift(src)
        return snap(tuple(kk))
    return SArr(a.shape, el, a.dtype)


def sum_(a, axis=None, keepdims=False):
    if axis is None and a.struct is not None and not keepdims:
        r = struct_sum(a)
        if r is not None:
            return r.value().item() if r.is_value() else r
    if axis is None:
        axes = list(range(a.ndim))
    elif isinstance(axis, (int, Sym)):
        axes = [int(axis)]
    else:
        axes = [int(x) for x in axis]
    for x in axes:
        if x < -a.ndim or x >= a.ndim:
            raise SValueError("axis out of bounds")
    axes = sorted(set(x % a.ndim for x in axes))
    keep = [d for d in range(a.ndim) if d not in axes]
    shape = tuple(a.shape[d] if d in keep else 1 for d in range(a.ndim)) if keepdims else tuple(a.shape[d] for d in keep)
    snap = a._snapshot()
    ashape = a.shape

    def el(k):
        full = [None] * len(ashape)
        binders = []
        concrete_axes = []
        for d in range(len(ashape)):
            if d in axes:
                if isinstance(ashape[d], int) and ashape[d] <= 4:
                    concrete_axes.append(d)
                else:
                    v = fresh_int("s")
                    binders.append(Binder(v, 0, ashape[d]))
                    full[d] = v
            else:
                full[d] = k[d] if keepdims else k[keep.index(d)]
        import itertools
        acc = LF()
        for combo in itertools.product(*[range(ashape[d]) for d in concrete_axes]):
            for d, c in zip(concrete_axes, combo):
                full[d] = z3.IntVal(c)
            v = snap(tuple(full))
            if binders and not v.const.is_zero():
                if v.terms:
                    raise Unsupported("sum over a symbolic extent of a mixed value/linear-form element")
                # a sum of VALUES over a symbolic extent: an uninterpreted function of the kept indices
                # (assumed numpy contract: it is a function of the summand array and the kept indices only)
                tag = _value_sum_tag(a, tuple(axes))
                args = [full[d] for d in range(len(ashape)) if d not in axes]
                sorts = [z3.IntSort()] * len(args) + [z3.RealSort()]
                sre = z3.Function("Sum<%s>.re" % tag, *sorts)(*args)
                sim = z3.Function("Sum<%s>.im" % tag, *sorts)(*args)
                bvars = [b.v for b in binders]
                re_nonneg = _provable(v.const.re >= 0)
                if re_nonneg:
                    define(sre >= 0)          # a sum of non-negative reals is non-negative
                    # ... and it bounds each of its terms: instantiate at every index that is asked for later
                    a.__dict__.setdefault("_sum_terms", {})[tag] = (v.const.re, bvars, args, sre)
                if _provable(v.const.im == 0):
                    sim = R0
                acc = acc + LF(C(sre, sim))
                continue
            if binders:
                v = LF(C0, [Term(tuple(binders) + t.binders, tuple(b.range_cond() for b in binders) + t.guard,
                                 t.coef, t.atom, t.idx, t.conj) for t in v.terms])
            acc = acc + v
        return acc
    r = SArr(shape, el, a.dtype)
    if not shape and not keepdims:
        # numpy returns a SCALAR (numpy scalar type, np.isscalar -> True), not a 0-d array, for a full reduction
        return el(())
    return r


_VSUM = {}


def _value_sum_tag(a, axes):
    key = (id(a), axes)
    if key not in _VSUM:
        _VSUM[key] = "%d" % len(_VSUM)
    return _VSUM[key] + ":" + ",".join(map(str, axes))


def tile(a, reps):
    if isinstance(reps, (int, Sym)):
        reps = [reps]
    reps = list(reps)
    n = max(len(reps), a.ndim)
    reps = [1] * (n - len(reps)) + reps
    ash = (1,) * (n - a.ndim) + a.shape
    shape = tuple(x * r for x, r in zip(ash, reps))
    snap = a._snapshot()
    off = n - a.ndim

    def el(k):
        kk = []
        for d in range(off, n):
            if isinstance(reps[d], int) and reps[d] == 1:
                kk.append(k[d])
            elif _is_one(ash[d]):
                kk.append(z3.IntVal(0))
            else:
                kk.append(_lift(core.sym_mod(Sym(k[d]), ash[d])))
        return snap(tuple(kk))
    return SArr(shape, el, a.dtype)


def concatenate(arrs, axis=0):
    arrs = [a if isinstance(a, SArr) else SArr((), (lambda k, a=a: LF.of(a))) for a in arrs]
    ax = int(axis)
    nd = arrs[0].ndim
    if any(a.ndim == 0 for a in arrs):
        raise SValueError("zero-dimensional arrays cannot be concatenated")
    ax %= nd
    for a in arrs[1:]:
        if a.ndim != nd:
            raise SValueError("all the input array dimensions must match")
        for d in range(nd):
            if d != ax and not _same(a.shape[d], arrs[0].shape[d]):
                raise SValueError("all the input array dimensions except for the concatenation axis must match")
    offs = []
    acc = 0
    for a in arrs:
        offs.append(acc)
        acc = acc + a.shape[ax]
    shape = list(arrs[0].shape)
    shape[ax] = acc
    snaps = [a._snapshot() for a in arrs]

    def el(k):
        r = LF()
        for a, off, sn in zip(arrs, offs, snaps):
            j = z3.simplify(k[ax] - _lift(off))
            kk = list(k)
            kk[ax] = j
            g = z3.And(j >= 0, j < _lift(a.shape[ax]))
            r = r + sn(tuple(kk)).guarded(g)
        return r
    r = SArr(tuple(shape), el, arrs[0].dtype)
    if nd == 1:
        r.struct = ("concat", list(arrs))
    return r


def matmul(a, b):
    """numpy.matmul with batch broadcasting (rank >= 2 operands)"""
    if isinstance(a, SArr) and isinstance(b, SArr) and a.ndim >= 2 and b.ndim == 1:
        # (.., n, d) @ (d,) -> (.., n)
        r = matmul(a, b[:, None])
        return r[..., 0]
    if a.ndim < 2 or b.ndim < 2:
        raise Unsupported("matmul with rank < 2")
    if not _same(a.shape[-1], b.shape[-2]):
        raise SValueError("matmul: core dimension mismatch")
    bshape = broadcast_shapes(a.shape[:-2], b.shape[:-2])
    shape = tuple(bshape) + (a.shape[-2], b.shape[-1])
    n = len(bshape)
    pa, pb = _bmap(a.shape[:-2], n), _bmap(b.shape[:-2], n)
    sa, sb = a._snapshot(), b._snapshot()
    inner = a.shape[-1]

    def el(k):
        kb = k[:n]
        i, j = k[n], k[n + 1]
        if isinstance(inner, int) and inner <= 4:
            acc = LF()
            for l in range(inner):
                acc = acc + sa(pa(kb) + (i, z3.IntVal(l))) * sb(pb(kb) + (z3.IntVal(l), j))
            return acc
        v = fresh_int("l")
        bd = Binder(v, 0, inner)
        p = sa(pa(kb) + (i, v)) * sb(pb(kb) + (v, j))
        if not p.const.is_zero():
            raise Unsupported("matmul of two value arrays over a symbolic extent")
        return LF(C0, [Term((bd,) + t.binders, (bd.range_cond(),) + t.guard, t.coef, t.atom, t.idx, t.conj) for t in p.terms])
    return SArr(shape, el, CDT)


# ----------------------------------------------------------------------------- stub namespaces
class Device:
    def __init__(self, id_=-1):
        self.id = -1

    @property
    def xp(self):
        return NP

    def __enter__(self):
        return self

    def __exit__(self, *a):
        return False

    def __eq__(self, o):
        return isinstance(o, Device) or o == -1

    def __hash__(self):
        return 0

    def use(self):
        pass


CPU = Device()


class _NS:
    """namespace stub: unknown attributes are an engine limit, not an AttributeError of the code"""
    _name = "?"

    def __getattr__(self, k):
        if k.startswith("__"):
            raise AttributeError(k)
        raise Unsupported("%s.%s is not modelled" % (self._name, k))


class _Backend(_NS):
    _name = "backend"
    cpu_device = CPU
    Device = staticmethod(lambda *a, **k: CPU)

    @staticmethod
    def get_array_module(x):
        return NP

    @staticmethod
    def get_device(x):
        return CPU

    @staticmethod
    def to_device(x, device=CPU):
        return x

    @staticmethod
    def copyto(dst, src):
        dst[...] = src

    @staticmethod
    def to_pytorch(*a, **k):
        raise Unsupported("pytorch")


BACKEND = _Backend()


class _Linalg(_NS):
    _name = "np.linalg"


def _isscalar(x):
    return isinstance(x, (int, float, complex, Sym, C, LF)) and not isinstance(x, bool) or isinstance(x, (bool,))


def _zeros(shape, dtype=None, **kw):
    if isinstance(shape, (int, Sym)):
        shape = [shape]
    for s in shape:
        if not bool(S(s) >= 0):
            raise SValueError("negative dimensions are not allowed")
    r = SArr(tuple(shape), lambda k: LF(), as_dtype(dtype) if dtype is not None else FDT)
    r.struct = ("const", LF())
    return r


def _ones(shape, dtype=None, **kw):
    if isinstance(shape, (int, Sym)):
        shape = [shape]
    for s in shape:
        if not bool(S(s) >= 0):
            raise SValueError("negative dimensions are not allowed")
    one = LF(C1)
    r = SArr(tuple(shape), lambda k: one, as_dtype(dtype) if dtype is not None else FDT)
    r.struct = ("const", one)
    return r


def _full(shape, fill_value, dtype=None, **kw):
    if isinstance(shape, (int, Sym)):
        shape = [shape]
    for s in shape:
        if not bool(S(s) >= 0):
            raise SValueError("negative dimensions are not allowed")
    v = LF.of(fill_value)
    if v.terms:
        raise Unsupported("np.full with an input-dependent fill value")
    r = SArr(tuple(shape), lambda k: v, as_dtype(dtype) if dtype is not None else (CDT if not v.const.is_real() else FDT))
    r.struct = ("const", v)
    return r


def _argsort(a):
    xs = [int(x) for x in a]
    return sorted(range(len(xs)), key=lambda i: xs[i])


def _np_prod(a, dtype=None, axis=None):
    if isinstance(a, (list, tuple)):
        return prod(a)
    raise Unsupported("np.prod of array")


def _np_sum(a, axis=None, keepdims=False, **kw):
    if isinstance(a, SArr):
        return sum_(a, axis=axis, keepdims=keepdims)
    return core.sym_sum(a)


def _np_abs(x):
    if isinstance(x, SArr):
        return elementwise(x, lambda v: LF(C(abs(v.value()))), FDT)
    if isinstance(x, LF):
        return abs(x.value())
    return abs(x)


def _np_real(x):
    if isinstance(x, SArr):
        return x.real
    if isinstance(x, (C,)):
        return x.real
    if isinstance(x, LF):
        return x.value().real
    return x.real if hasattr(x, "real") else x


def _np_sqrt(x):
    if isinstance(x, SArr):
        return elementwise(x, lambda v: LF(C(core.sym_sqrt(Sym(v.value()._cmp_real().t)))), x.dtype)
    return core.sym_sqrt(x)


def _np_transpose(a, axes=None):
    return transpose(a, axes)


def _np_reshape(a, shape):
    return reshape(a, shape)


def _np_conj(a):
    return conj(a)


def _np_expand_dims(a, axis):
    idx = [slice(None)] * a.ndim
    ax = int(axis)
    if ax < 0:
        ax += a.ndim + 1
    idx.insert(ax, None)
    r = a[tuple(idx)]
    r.struct = a.struct
    return r


def _np_empty(shape, dtype=None, **kw):
    z = _zeros(shape, dtype)
    junk_name = core.fresh_name("uninit")
    return SArr(z.shape, lambda k: atom_elem(junk_name, k), z.dtype)


def _np_shape(a):
    return a.shape


def _scalar(x):
    """numpy scalar functions applied to a value element"""
    if isinstance(x, LF):
        v = x.value()
        return Sym(v.re) if v.is_real() else v
    if isinstance(x, C):
        return Sym(x.re) if x.is_real() else x
    return x


def _np_round(x):
    """round half to even (numpy / Python 3): |x - r| <= 1/2, and r is even at a tie"""
    if not core.is_sym(x):
        return round(x)
    t = core._to_real(_lift(x))
    r = core._witness("round", True, lambda v: z3.And(z3.ToReal(v) - z3.RealVal(1) / 2 <= t, t <= z3.ToReal(v) + z3.RealVal(1) / 2,
                                                     z3.Implies(z3.Or(t == z3.ToReal(v) - z3.RealVal(1) / 2, t == z3.ToReal(v) + z3.RealVal(1) / 2), v % 2 == 0)))
    return Sym(r)


def _np_array(a, dtype=None):
    if isinstance(a, SArr):
        return a.copy()
    if isinstance(a, (list, tuple)) and not any(isinstance(x, (list, tuple, SArr)) for x in a):
        vals = [LF.of(x) for x in a]
        n = len(vals)

        def el(k):
            r = vals[-1]
            for j in range(n - 2, -1, -1):
                r = LF._ite(SymBool(k[0] == j), vals[j], r)
            return r
        return SArr((n,), el, as_dtype(dtype) if dtype is not None else FDT)
    raise Unsupported("np.array of %r" % (type(a),))


def _np_asarray(a, dtype=None):
    if isinstance(a, SArr):
        return a
    v = LF.of(a)
    return SArr((), lambda k: v, CDT)


def _np_linspace(start, stop, num=50, endpoint=True, **kw):
    n = _ext(S(num))
    if not endpoint:
        raise Unsupported("linspace(endpoint=False)")
    if not bool(S(n) >= 2):
        # numpy: num == 1 gives [start]; num == 0 gives []
        a = SArr((n,), lambda k: LF(C(start)), FDT)
        a.struct = ("const", LF(C(start)))
        return a
    step = (S(stop) - S(start)) / (S(n) - 1)
    a0 = LF(C(start))
    b0 = LF(C(step))
    a = SArr((n,), lambda k: a0 + b0 * C(k[0]), FDT)
    a.struct = ("affine", a0, b0)
    return a


def _np_squeeze(a, axis=None):
    if not isinstance(a, SArr):
        return a
    if axis is not None:
        axes = [axis] if isinstance(axis, int) else list(axis)
        axes = [x % a.ndim for x in axes]
        for x in axes:
            if not _is_one(a.shape[x]):
                raise SValueError("cannot select an axis to squeeze out which has size not equal to one")
        keep = [d for d in range(a.ndim) if d not in axes]
    else:
        # numpy drops EVERY axis whose extent is 1 - also a symbolic extent that happens to be 1 (path split)
        keep = [d for d, e in enumerate(a.shape) if not _is_one(e)]
    return reshape(a, [a.shape[d] for d in keep])


def _np_max(a, axis=None):
    if isinstance(a, SArr):
        if axis is None:
            r = struct_max(a)
            if r is not None:
                return r.value().item()
            # value array without a closed form: the abstract maximum (attained at a Skolem index, bounds the first element)
            probe = a.elem(tuple(z3.IntVal(0) for _ in a.shape))
            if not probe.terms and z3.is_true(z3.simplify(probe.const.im == 0)):
                return abstract_max(a)
        raise Unsupported("np.max of an array without a closed form")
    return a


def _np_clip(a, lo, hi):
    if hi is None and not isinstance(lo, SArr):
        return _np_maximum(a, lo)
    def f(v):
        x = v.value()._cmp_real()
        l, h = LF.of(lo).value()._cmp_real() if not isinstance(lo, SArr) else None, LF.of(hi).value()._cmp_real() if not isinstance(hi, SArr) else None
        return LF(C(Sym(z3.If(x.t < l.t, l.t, z3.If(x.t > h.t, h.t, x.t)))))
    if isinstance(lo, SArr) or isinstance(hi, SArr):
        lo_a = lo if isinstance(lo, SArr) else SArr.full((), lo)
        hi_a = hi if isinstance(hi, SArr) else SArr.full((), hi)
        t = broadcast2(a, lo_a, lambda v, l: LF(C(Sym(z3.If(v.value()._cmp_real().t < l.value()._cmp_real().t, l.value()._cmp_real().t, v.value()._cmp_real().t)))))
        return broadcast2(t, hi_a, lambda v, h: LF(C(Sym(z3.If(v.value()._cmp_real().t > h.value()._cmp_real().t, h.value()._cmp_real().t, v.value()._cmp_real().t)))))
    return elementwise(a, f)


def _trig(t):
    """cos t, sin t as uninterpreted functions with the instances  c^2 + s^2 = 1  and  s^2 <= t^2"""
    t = z3.simplify(core._to_real(_lift(t)))
    c = z3.Function("cos", z3.RealSort(), z3.RealSort())(t)
    s_ = z3.Function("sin", z3.RealSort(), z3.RealSort())(t)
    define(c * c + s_ * s_ == 1)
    define(s_ * s_ <= t * t)
    define(z3.Implies(t == 0, z3.And(c == 1, s_ == 0)))
    return Sym(c), Sym(s_)


def _np_cos(x):
    if isinstance(x, SArr):
        return elementwise(x, lambda v: LF(C(_trig(v.value()._cmp_real())[0])), FDT)
    return _trig(_scalar(x))[0]


def _np_sin(x):
    if isinstance(x, SArr):
        return elementwise(x, lambda v: LF(C(_trig(v.value()._cmp_real())[1])), FDT)
    return _trig(_scalar(x))[1]


_SINH = z3.Function("sinh", z3.RealSort(), z3.RealSort())


def _np_sinh(x):
    """sinh on real values: an uninterpreted function (only  x > 0 => sinh x > 0  is built in, instance-wise)"""
    def one(v):
        t = core._to_real(v.t)
        r = _SINH(t)
        core.define(z3.Implies(t > 0, r > 0))
        return Sym(r)
    if isinstance(x, SArr):
        return elementwise(x, lambda v: LF(C(one(v.value()._cmp_real()))), x.dtype)
    return one(S(_scalar(x)))


def _np_arange(n, *a, dtype=None, **kw):
    if a:
        raise Unsupported("arange(start, stop, ...)")
    n = _ext(S(n))
    r = SArr((n,), lambda k: LF(C(Sym(k[0]))), as_dtype(dtype) if dtype is not None else IDT)
    r.struct = ("affine", LF(C0), LF(C1))
    return r


def _exp_value(v):
    v = C.of(v)
    if not z3.is_true(z3.simplify(v.re == 0)):
        raise Unsupported("exp of a value with a real part")
    c, s_ = _trig(Sym(v.im))
    return C(c, s_)


def _np_exp(x):
    """exp of a purely imaginary value: exp(i t) = cos t + i sin t"""
    if isinstance(x, SArr):
        return elementwise(x, lambda v: LF(_exp_value(v.value())), CDT)
    return _exp_value(_scalar(x) if not isinstance(x, C) else x)


def _np_angle(x):
    """theta with |z| cos(theta) = re z, |z| sin(theta) = im z"""
    z_ = C.of(_scalar(x) if not isinstance(x, C) else x)
    th = z3.Function("angle", z3.RealSort(), z3.RealSort(), z3.RealSort())(z_.re, z_.im)
    c, s_ = _trig(Sym(th))
    r = abs(z_)
    define(z3.And(_lift(r) * c.t == z_.re, _lift(r) * s_.t == z_.im))
    return Sym(th)


def _np_column_stack(arrs):
    arrs = list(arrs)
    n = arrs[0].shape[0]
    snaps = [a._snapshot() for a in arrs]
    m = len(arrs)

    def el(k):
        r = snaps[-1]((k[0],))
        for j in range(m - 2, -1, -1):
            r = LF._ite(SymBool(k[1] == j), snaps[j]((k[0],)), r)
        return r
    return SArr((n, m), el, arrs[0].dtype)


def _np_imag(x):
    if isinstance(x, SArr):
        return x.imag
    if isinstance(x, C):
        return x.imag
    if isinstance(x, LF):
        return x.value().imag
    return getattr(x, "imag", 0)


_MAXREG = []


def abstract_max(a):
    """max of a real value array with symbolic extents: a fresh M that is attained at some index (Skolem index) and
    bounds every element (instances M >= a[idx] are added on request with max_bounds())"""
    n = prod(a.shape)
    side_obligation("def:max-of-nonempty-array", _lift(n) >= 1)
    M = z3.Real(core.fresh_name("max"))
    snap = a._snapshot()
    ist = [z3.Int(core.fresh_name("argmax")) for _ in a.shape]
    define(z3.And(*[z3.And(i >= 0, i < _lift(e)) for i, e in zip(ist, a.shape)]))
    define(M == snap(tuple(ist)).value().re)
    define(M >= snap(tuple(z3.IntVal(0) for _ in a.shape)).value().re)      # the maximum bounds the first element
    _MAXREG.append((M, snap, a.shape))
    return Sym(M)


def max_bounds(idx):
    """instances  M >= a[idx]  for every abstract maximum taken so far (idx must lie in the array's box)"""
    out = []
    for M, snap, shape in _MAXREG:
        if len(shape) == len(idx):
            inb = z3.And(*[z3.And(_lift(i) >= 0, _lift(i) < _lift(e)) for i, e in zip(idx, shape)])
            out.append(z3.Implies(inb, M >= snap(tuple(_lift(i) for i in idx)).value().re))
    return out


def _np_maximum(a, b):
    f = lambda x, y: LF(C(Sym(z3.If(x.value()._cmp_real().t >= y.value()._cmp_real().t, x.value()._cmp_real().t, y.value()._cmp_real().t))))
    if isinstance(a, SArr) and isinstance(b, SArr):
        return broadcast2(a, b, f)
    if isinstance(a, SArr):
        bv = LF.of(b)
        return elementwise(a, lambda v: f(v, bv))
    if isinstance(b, SArr):
        av = LF.of(a)
        return elementwise(b, lambda v: f(av, v))
    return core.sym_max(a, b)


class _MGrid:
    def __getitem__(self, idx):
        if not isinstance(idx, tuple):
            idx = (idx,)
        exts = []
        for s_ in idx:
            if not isinstance(s_, slice) or s_.start is not None or s_.step is not None:
                raise Unsupported("mgrid with start/step")
            exts.append(s_.stop)
        out = []
        for d in range(len(exts)):
            out.append(SArr(tuple(exts), (lambda k, d=d: LF(C(Sym(k[d])))), IDT))
        return out if len(out) > 1 else out[0]


def _np_size(a):
    return a.size if isinstance(a, SArr) else 1


def _np_sign(x):
    if isinstance(x, SArr):
        raise Unsupported("sign of array")
    t = _lift(x)
    return Sym(z3.If(t > 0, z3.IntVal(1), z3.If(t < 0, z3.IntVal(-1), z3.IntVal(0))))


class _Numpy(_NS):
    _name = "np"
    ndarray = SArr
    inf = float("inf")

    int64 = "int64"
    float32 = "float32"
    float64 = "float64"
    complex64 = "complex64"
    complex128 = "complex128"
    complexfloating = "complexfloating"
    floating = "floating"
    linalg = _Linalg()
    zeros = staticmethod(_zeros)
    ones = staticmethod(_ones)
    full = staticmethod(_full)
    empty = staticmethod(_np_empty)
    isscalar = staticmethod(_isscalar)
    prod = staticmethod(_np_prod)
    argsort = staticmethod(_argsort)
    roll = staticmethod(roll)
    sum = staticmethod(_np_sum)
    tile = staticmethod(tile)
    conj = staticmethod(_np_conj)
    conjugate = staticmethod(_np_conj)
    abs = staticmethod(_np_abs)
    absolute = staticmethod(_np_abs)
    real = staticmethod(_np_real)
    sqrt = staticmethod(_np_sqrt)
    concatenate = staticmethod(concatenate)
    transpose = staticmethod(_np_transpose)
    reshape = staticmethod(_np_reshape)
    matmul = staticmethod(matmul)
    expand_dims = staticmethod(_np_expand_dims)
    shape = staticmethod(_np_shape)
    ceil = staticmethod(lambda x: core.sym_ceil(_scalar(x)))
    floor = staticmethod(lambda x: core.sym_floor(_scalar(x)))
    round = staticmethod(lambda x, decimals=0: _np_round(_scalar(x)))
    around = staticmethod(lambda x, decimals=0: _np_round(_scalar(x)))
    linspace = staticmethod(_np_linspace)
    asarray = staticmethod(_np_asarray)
    ascontiguousarray = staticmethod(lambda a, dtype=None: (a.copy() if isinstance(a, SArr) else _np_asarray(a)))
    array = staticmethod(_np_array)
    clip = staticmethod(_np_clip)
    maximum = staticmethod(_np_maximum)
    cos = staticmethod(_np_cos)
    sin = staticmethod(_np_sin)
    exp = staticmethod(_np_exp)
    sinh = staticmethod(_np_sinh)
    arange = staticmethod(_np_arange)
    angle = staticmethod(_np_angle)
    column_stack = staticmethod(_np_column_stack)
    imag = staticmethod(_np_imag)
    pi = Sym(z3.Real("pi"))
    mgrid = _MGrid()
    squeeze = staticmethod(_np_squeeze)
    max = staticmethod(_np_max)
    amax = staticmethod(_np_max)
    size = staticmethod(_np_size)
    sign = staticmethod(_np_sign)

    @staticmethod
    def issubdtype(a, b):
        a = as_dtype(a)
        if b in ("complexfloating",):
            return a.kind == "c"
        if b in ("floating",):
            return a.kind == "f"
        raise Unsupported("issubdtype(%r, %r)" % (a, b))

    fft = None   # set below


NP = _Numpy()


def builtins_ns():
    """names that shadow builtins inside the compiled repo code"""
    return dict(max=core.sym_max, min=core.sym_min, all=core.sym_all, any=core.sym_any, sum=_builtin_sum, round=lambda x, n=None: _np_round(_scalar(x)),
                abs=core.sym_abs, int=_int, range=sym_range, len=_len, isinstance=_isinstance, float=_float,
                __pyvc_frac=lambda a, b: Sym(z3.RealVal(a) / z3.RealVal(b)) if b != 0 else a / b, __pyvc_iter=pyvc_iter, __pyvc_and=pyvc_and, __pyvc_or=pyvc_or, __pyvc_not=pyvc_not, __pyvc_augstore=pyvc_augstore, __pyvc_cond=pyvc_cond)


def _builtin_sum(it, start=0):
    if isinstance(it, SArr):
        if it.ndim != 1:
            raise Unsupported("builtin sum over an n-d array")
        return sum_(it) + start if start != 0 else sum_(it)
    return core.sym_sum(it, start)


_pyint = int
_pyfloat = float


class _IntMeta(type):
    def __instancecheck__(cls, x):
        return isinstance(x, _pyint) or (isinstance(x, Sym) and x.is_int)


class _int(metaclass=_IntMeta):
    """stands for builtins.int inside repo code: int(x) truncates symbolically; isinstance(x, int) accepts symbolic ints"""

    def __new__(cls, x=0, *a):
        if isinstance(x, (Sym, C)):
            if isinstance(x, C):
                x = x._cmp_real()
            return core.sym_trunc(x)
        return _pyint(x, *a)


def _float(x=0.0):
    if isinstance(x, Sym):
        return Sym(core._to_real(x.t))
    if isinstance(x, C):
        return x._cmp_real()
    return _pyfloat(x)


def _len(x):
    if isinstance(x, SArr):
        if not x.shape:
            raise TypeError("len() of unsized object")
        return x.shape[0]
    return len(x)


def _isinstance(x, t):
    if t is int or (isinstance(t, tuple) and int in t):
        if isinstance(x, Sym) and x.is_int:
            return True
    return isinstance(x, t)


class SymRange:
    """range with a symbolic bound; iterating it performs ONE generic iteration with a fresh bound variable
    (loop-nest summarisation, DESIGN 4.2)."""

    def __init__(self, lo, hi, step):
        self.lo, self.hi, self.step = lo, hi, step

    def __iter__(self):
        c = cur()
        cs = concrete(S(self.step))
        v = fresh_int("it")
        b = Binder(v, self.lo, self.hi)
        mark = len(c.binders)
        c.binders.append(b)
        guards = c.__dict__.setdefault("guards", [])
        gmark = len(guards)
        if cs != 1:
            side_obligation("def:range-step-positive", _lift(self.step) > 0)
            q, r = core._divmod(Sym(z3.simplify(v - _lift(self.lo))), S(self.step))
            guards.append(r == 0)
        try:
            yield Sym(v)
        finally:
            del c.binders[mark:]
            del guards[gmark:]
            if not c.binders:
                _commit_loops()


def sym_range(*args):
    if all(isinstance(a, _pyint) for a in args):
        return range(*args)
    vals = [concrete(S(a)) for a in args]
    if all(isinstance(v, _pyint) for v in vals):
        return range(*vals)
    if len(args) == 1:
        return SymRange(0, args[0], 1)
    if len(args) == 2:
        return SymRange(args[0], args[1], 1)
    return SymRange(*args)


# ----------------------------------------------------------------------------- comparing linear forms
def lf_atoms(*lfs):
    out = {}
    for lf in lfs:
        for t in lf.terms:
            out.setdefault((t.atom, t.conj), len(t.idx))
    return out


def _split_eq(x, y):
    """x == y for real-valued coefficient terms, split into the two implications that nonlinear
    index reasoning discharges quickly (x != 0 => y == x ; y != 0 => x == y)"""
    x, y = z3.simplify(x), z3.simplify(y)
    if x.eq(y):
        return []
    if len(str(x)) + len(str(y)) < 20000:
        # polynomial identity: the difference normalises to 0 as a sum of monomials (no solver needed)
        d = z3.simplify(x - y, som=True)
        if z3.is_rational_value(d) and d.numerator_as_long() == 0:
            return []
    if not (z3.is_app_of(x, z3.Z3_OP_ITE) or z3.is_app_of(y, z3.Z3_OP_ITE)):
        return [("eq", x == y)]
    return [("fwd", z3.Implies(x != 0, y == x)), ("bwd", z3.Implies(y != 0, x == y))]


def lf_equal_goals(a, b, tag="t"):
    """list of (suffix, z3 Bool): together they state that the linear forms a and b are equal as functions of
    every input array (coefficient-wise at a fresh symbolic atom index) and have equal constant parts."""
    a, b = LF.of(a), LF.of(b)
    goals = []
    for nm, x, y in (("const.re", a.const.re, b.const.re), ("const.im", a.const.im, b.const.im)):
        goals += [("%s:%s" % (nm, sfx), g) for sfx, g in _split_eq(x, y)]
    for (atom, cj), rank in lf_atoms(a, b).items():
        t = tuple(z3.Int("%s!%s%d" % (tag, atom, d)) for d in range(rank))
        if atom.startswith("uninit!"):
            # np.empty: the result must not depend on uninitialised memory, on either side
            for side, lf in (("lhs", a), ("rhs", b)):
                cu, lu = coef_of(lf, atom, t, cj)
                if lu:
                    goals.append(("%s:%s-independent-of-uninitialised-memory" % (atom, side), z3.BoolVal(False)))
                else:
                    goals.append(("%s:%s-independent-of-uninitialised-memory" % (atom, side), z3.And(cu.re == 0, cu.im == 0)))
            continue
        ca, la = coef_of(a, atom, t, cj)
        cb, lb = coef_of(b, atom, t, cj)
        nm = atom + ("*" if cj else "")
        if la or lb:
            goals += [("%s:%s" % (nm, sfx), g) for sfx, g in match_leftover(la, lb, t, t)]
        goals += [("%s.re:%s" % (nm, sfx), g) for sfx, g in _split_eq(ca.re, cb.re)]
        goals += [("%s.im:%s" % (nm, sfx), g) for sfx, g in _split_eq(ca.im, cb.im)]
    return goals or [("trivial", z3.BoolVal(True))]


def _unused(bnd, term, eqs):
    """the bound variable occurs nowhere but in its own range condition"""
    if bnd.kind != "range" or bnd.lo is None or bnd.hi is None:
        return False
    v = bnd.v
    rc = bnd.range_cond()
    if any(_contains(i, v) for i in term.idx) or _contains(term.coef.re, v) or _contains(term.coef.im, v):
        return False
    for g in term.guard:
        for gg in (g.children() if z3.is_and(g) else [g]):
            if _contains(gg, v) and not (gg.eq(rc) or any(gg.eq(c) for c in (rc.children() if z3.is_and(rc) else [rc]))):
                return False
    for b in term.binders:
        if b is bnd:
            continue
        if b.kind == "def":
            if _contains(b.a, v) or _contains(b.d, v):
                return False
        elif b.kind == "fdef":
            if _contains(b.cons, v):
                return False
        elif _contains(_lift(b.lo), v) or _contains(_lift(b.hi), v):
            return False
    for l, r in eqs:
        if _contains(l, v) or _contains(r, v):
            return False
    return True


def _rotation_rule(bnd, binders, eqs, ap):
    """v in [0, d),  r := (v + c) mod d,  r == e   <=>   v == (e - c) mod d  and  0 <= e < d
    (inverse of a cyclic rotation: numpy roll / fftshift / ifftshift index maps)"""
    if bnd.kind != "range" or bnd.hi is None or bnd.lo is None or not z3.is_true(z3.simplify(ap(_lift(bnd.lo)) == 0)):
        return None, None
    d = z3.simplify(ap(_lift(bnd.hi)))
    for D in binders:
        if D.kind != "def":
            continue
        if not z3.simplify(ap(D.d)).eq(d):
            continue
        a = ap(D.a)
        c = z3.simplify(a - bnd.v)
        if _contains(c, bnd.v):
            continue
        for l, r in eqs:
            l2, r2 = ap(l), ap(r)
            e = _solve_for(l2, r2, D.r)          # isolate the remainder (unit coefficient), e.g.  r + off == t
            if e is not None and not _contains(e, bnd.v) and not _contains(e, D.q) and not _contains(e, D.r):
                q2, r2_ = core._divmod_global(z3.simplify(e - c), d)
                return r2_, z3.And(e >= 0, e < d)
    return None, None


def partial_eliminate(term, eqs):
    """apply the one-point rule to as many bound variables as possible; returns (remaining vars, guard Bool, coef C)
    with the index equalities folded into the guard"""
    sub = []
    remaining = []
    sigs = {}
    handled = set()
    count_factor, dropped = [], []
    rot_guards = []
    ap = lambda e: z3.substitute(e, *sub) if sub else e
    eqs = [(_lift(a), _lift(b)) for a, b in eqs]
    n_given = len(eqs)
    for g in term.guard:
        g = z3.simplify(g)
        for gg in (g.children() if z3.is_and(g) else [g]):
            if z3.is_eq(gg) and gg.arg(0).sort() == z3.IntSort():
                eqs.append((gg.arg(0), gg.arg(1)))
    for bnd in term.binders:
        if bnd.kind == "fdef":
            c2 = ap(bnd.cons)
            if any(_contains(c2, v) for v in remaining):
                remaining.append(bnd.v)
                sigs[bnd.v.get_id()] = "def"
                continue
            # all arguments known: instantiate the witness globally (it exists and is unique)
            nv = z3.Const(core.fresh_name(str(bnd.v).split("!")[0]), bnd.v.sort())
            core.define(z3.substitute(c2, (bnd.v, nv)))
            sub.append((bnd.v, nv))
            continue
        if bnd.kind == "def":
            if id(bnd) in handled:
                continue
            a2, d2 = ap(bnd.a), ap(bnd.d)
            if any(_contains(a2, v) or _contains(d2, v) for v in remaining):
                remaining += [bnd.q, bnd.r]
                sigs[bnd.q.get_id()] = sigs[bnd.r.get_id()] = "def"
                continue
            q2, r2 = core._divmod_global(a2, d2)
            sub += [(bnd.q, q2), (bnd.r, r2)]
            continue
        if bnd.kind != "range":
            continue
        sol = None
        pos = list(term.binders).index(bnd)
        later = []
        for bb in list(term.binders)[pos + 1:]:
            later += bvars(bb)
        for l, r in eqs:
            cand = _solve_for(ap(l), ap(r), bnd.v)
            if cand is not None and not any(_contains(cand, v) for v in remaining + later):
                sol = cand
                break
        if sol is None:
            sol, extra_g = _rotation_rule(bnd, term.binders, eqs, ap)
            if sol is not None:
                rot_guards.append(extra_g)
        if sol is None:
            # divmod inversion: (q, r) := divmod(v + c, d) is a bijection of v; when the equalities pin BOTH q and r,
            # v = q*d + r - c (the definedness 0 <= r < d stays in the guard through the binder's own constraint)
            sol, qr = _divmod_inversion(bnd, list(term.binders), eqs, ap, remaining)
            if sol is not None:
                sub.append((bnd.v, sol))
                for bb, sq, sr in qr:
                    sub += [(bb.q, sq), (bb.r, sr)]
                    handled.add(id(bb))
                continue
        if sol is None and bnd.lo is not None and bnd.hi is not None:
            lo_, hi_ = ap(_lift(bnd.lo)), ap(_lift(bnd.hi))
            if _provable(hi_ == lo_ + 1):
                sol = z3.simplify(lo_)        # singleton range on this path
        if sol is None and _unused(bnd, term, eqs):
            # summation over an index that nothing depends on: contributes the number of its values
            cnt = z3.simplify(ap(_lift(bnd.hi)) - ap(_lift(bnd.lo)))
            count_factor.append(z3.If(cnt > 0, z3.ToReal(cnt), z3.RealVal(0)))
            dropped.append(bnd)
            continue
        if sol is None:
            remaining.append(bnd.v)
            sigs[bnd.v.get_id()] = "%s..%s" % (z3.simplify(ap(_lift(bnd.lo))) if bnd.lo is not None else None, z3.simplify(ap(_lift(bnd.hi))) if bnd.hi is not None else None)
        else:
            sub.append((bnd.v, sol))
    dr = [b.range_cond() for b in dropped]
    guard = z3.And(*([ap(g) for g in term.guard if not any(g.eq(d) for d in dr)] + [ap(b.range_cond()) for b in term.binders if b not in dropped]
                     + [ap(l) == ap(r) for l, r in eqs[:n_given]] + [ap(g) for g in rot_guards]))
    coef = C(ap(term.coef.re), ap(term.coef.im))
    for cf in count_factor:
        coef = coef * C(cf)
    partial_eliminate.last_sigs = sigs
    return remaining, z3.simplify(guard), coef


def _divmod_inversion(bnd, binders, eqs, ap, remaining):
    pos = binders.index(bnd)
    for bb in binders[pos + 1:]:
        if bb.kind != "def":
            continue
        a, d = ap(bb.a), ap(bb.d)
        if not _contains(a, bnd.v) or _contains(d, bnd.v):
            continue
        c = z3.simplify(a - bnd.v)
        if _contains(c, bnd.v):
            continue
        others = [v for b2 in binders[pos + 1:] if b2 is not bb for v in bvars(b2)]
        bad = [bnd.v, bb.q, bb.r] + list(remaining) + others
        solq = solr = None
        for l, r in eqs:
            if solq is None:
                cand = _solve_for(ap(l), ap(r), bb.q)
                if cand is not None and not any(_contains(cand, x) for x in bad):
                    solq = cand
            if solr is None:
                cand = _solve_for(ap(l), ap(r), bb.r)
                if cand is not None and not any(_contains(cand, x) for x in bad):
                    solr = cand
        if solq is not None and solr is not None:
            return z3.simplify(solq * d + solr - c), [(bb, solq, solr)]
    return None, []


def match_leftover(la, lb, ta, tb, conj_b=False):
    """summations that the one-point rule cannot remove are matched structurally: the i-th leftover term of one side
    against the i-th of the other, bound variables renamed in creation order; guards must be equivalent and the
    coefficients equal pointwise (conjugated on side b when conj_b).  Sufficient, not necessary."""
    if len(la) != len(lb):
        return [("summation-structure", z3.BoolVal(False))]
    out = []
    for n, (xa, xb) in enumerate(zip(la, lb)):
        va, ga, ca = partial_eliminate(xa, list(zip(xa.idx, ta)))
        sa = dict(partial_eliminate.last_sigs)
        vb, gb, cb = partial_eliminate(xb, list(zip(xb.idx, tb)))
        sb = dict(partial_eliminate.last_sigs)
        if len(va) != len(vb):
            out.append(("summation-structure#%d" % n, z3.BoolVal(False)))
            continue
        # pair bound variables by their ranges (creation order breaks ties)
        ren, used = [], set()
        for v2 in vb:
            cand = [v1 for v1 in va if v1.get_id() not in used and sa.get(v1.get_id()) == sb.get(v2.get_id())]
            if not cand:
                cand = [v1 for v1 in va if v1.get_id() not in used]
            used.add(cand[0].get_id())
            ren.append((v2, cand[0]))
        if ren:
            gb = z3.substitute(gb, *ren)
            cb = C(z3.substitute(cb.re, *ren), z3.substitute(cb.im, *ren))
        out.append(("sum#%d:guards" % n, ga == gb))
        out.append(("sum#%d:re" % n, z3.Implies(ga, ca.re == cb.re)))
        out.append(("sum#%d:im" % n, z3.Implies(ga, ca.im == (-cb.im if conj_b else cb.im))))
    return out


def lf_equal_goal(a, b, tag="t"):
    return z3.And(*[g for _, g in lf_equal_goals(a, b, tag)])


def adjoint_goal(fwd, adj, xname, yname, k, t):
    """fwd = (A x)[k] as LF over atom xname ; adj = (A^H y)[t] as LF over atom yname.
    goal: coef of x[t] in fwd  ==  conj(coef of y[k] in adj)"""
    ca, la = coef_of(fwd, xname, t)
    cb, lb = coef_of(adj, yname, k)
    if la or lb:
        raise Unsupported("adjoint pair with a summation the one-point rule cannot eliminate")
    return z3.And(ca.re == cb.re, ca.im == -cb.im)


def no_conj_terms(lf, atom):
    return not any(t.conj for t in lf.terms if t.atom == atom)


# ----------------------------------------------------------------------------- generic iterations / loop stores
class Guard:
    def __init__(self, t):
        self.t = t

    def neg(self):
        return Guard(z3.Not(self.t))

    def __enter__(self):
        cur().__dict__.setdefault("guards", []).append(self.t)
        return self

    def __exit__(self, *a):
        cur().guards.pop()
        return False


def _mentions_binder(t):
    bs = []
    for b in cur().binders:
        bs += bvars(b)
    if not bs:
        return False
    # derived loop variables (v = lo + t*step) mention the binder syntactically as well
    return any(core_contains(t, b) for b in bs)


def core_contains(e, v):
    return _contains(e, v)


def pyvc_cond(test, unsafe, names):
    if isinstance(test, bool):
        return test
    if isinstance(test, Sym):
        test = SymBool(test.t != 0)
    if not isinstance(test, SymBool):
        return bool(test)
    c = concrete(test)
    if c is not None:
        return c
    if not _mentions_binder(test.t):
        return bool(test)
    if unsafe or names:
        raise Unsupported("conditional on a generic loop variable with control flow or local assignments (%s)" % (names,))
    return Guard(test.t)


def pyvc_and(*thunks):
    acc = []
    last = True
    for th in thunks:
        v = th()
        last = v
        if isinstance(v, (SymBool,)) or (isinstance(v, Sym) and concrete(v) is None):
            cv = concrete(v)
            if cv is None:
                acc.append(v if isinstance(v, SymBool) else SymBool(v.t != 0))
                continue
            v = cv
        if not v:
            return v if not acc else False
    if not acc:
        return last
    return core.And(*acc)


def pyvc_or(*thunks):
    acc = []
    last = False
    for th in thunks:
        v = th()
        last = v
        if isinstance(v, (SymBool,)) or (isinstance(v, Sym) and concrete(v) is None):
            cv = concrete(v)
            if cv is None:
                acc.append(v if isinstance(v, SymBool) else SymBool(v.t != 0))
                continue
            v = cv
        if v:
            return v if not acc else True
    if not acc:
        return last
    return core.Or(*acc)


def pyvc_not(v):
    if isinstance(v, SymBool):
        return core.Not(v)
    if isinstance(v, Sym):
        return SymBool(v.t == 0)
    return not v


def pyvc_iter(it, carried):
    if isinstance(it, SymRange):
        if carried:
            raise Unsupported("loop over a symbolic range with loop-carried variables %s (needs an invariant)" % (carried,))
        return it
    return it


_OPS = {"Add": lambda a, b: a + b, "Sub": lambda a, b: a - b, "Mult": lambda a, b: a * b, "Div": lambda a, b: a / b}


class LoopStore:
    def __init__(self, binders, guards, idx, value, op):
        self.binders, self.guards, self.idx, self.value, self.op = tuple(binders), tuple(guards), tuple(idx), value, op


def _scalar_index(arr, idx):
    if not isinstance(idx, tuple):
        idx = (idx,)
    if len(idx) != arr.ndim or any(isinstance(i, slice) or i is None or i is Ellipsis for i in idx):
        return None
    out = []
    for i, n in zip(idx, arr.shape):
        side_obligation("index-in-bounds", z3.And(_lift(i) >= -_lift(n), _lift(i) < _lift(n)))
        t = _lift(i)
        if isinstance(i, int) and i < 0:
            out.append(z3.simplify(t + _lift(n)))
        elif z3.is_true(z3.simplify(t >= 0)) or _provable(t >= 0):
            out.append(t)
        else:
            out.append(z3.If(t < 0, t + _lift(n), t))
    return tuple(out)


def _provable(goal):
    """is goal implied by the current path condition, loop-variable ranges and guards? (cheap solver call)"""
    c = cur()
    hy = c.hyps() + [b.range_cond() for b in c.binders] + list(c.__dict__.get("guards", []))
    return core._check(hy + [z3.Not(goal)], 1000) == z3.unsat


def pyvc_augstore(obj, idx, op, val):
    c = cur()
    if isinstance(obj, SArr) and c.binders:
        sidx = _scalar_index(obj, idx)
        if sidx is None:
            raise Unsupported("slice store inside a generic loop iteration")
        if op == "Add":
            delta = LF.of(val)
        elif op == "Sub":
            delta = -LF.of(val)
        else:
            raise Unsupported("augmented store %s inside a generic loop iteration" % op)
        obj._loopstore(LoopStore(c.binders, c.__dict__.get("guards", []), sidx, delta, "+="))
        return
    cur_v = obj[idx]
    if isinstance(cur_v, SArr):
        # view: in-place arithmetic on a slice == store of the result
        obj[idx] = _OPS[op](cur_v.copy(), val)
    else:
        obj[idx] = _OPS[op](cur_v, val)


def _loopstore(self, st):
    c = cur()
    if self.base is not None:
        raise Unsupported("loop store through a view")
    pend = self.__dict__.setdefault("_pending", [])
    pend.append(st)
    reg = c.__dict__.setdefault("loop_arrays", [])
    if self not in reg:
        reg.append(self)


def _injectivity_obligation(p):
    """a plain `=` store in a loop nest is a gather only if no two iterations write the same cell"""
    vs = []
    for b in p.binders:
        vs += bvars(b)
    primed = [(v, z3.Int(str(v) + "'")) for v in vs]
    G = z3.And(*(list(p.guards) + [b.range_cond() for b in p.binders])) if (p.guards or p.binders) else z3.BoolVal(True)
    G2 = z3.substitute(G, *primed)
    same = z3.And(*[i == z3.substitute(i, *primed) for i in p.idx])
    rng = [b.v for b in p.binders if b.kind == "range"]
    eq = z3.And(*[v == z3.substitute(v, *primed) for v in rng])
    c = cur()
    c.side.append(("store-is-injective(=-not-accumulate)", c.hyps(), z3.Implies(z3.And(G, G2, same), eq)))


def _commit_loops():
    c = cur()
    for arr in c.__dict__.get("loop_arrays", []):
        pend = arr.__dict__.pop("_pending", [])
        if not pend:
            continue
        old = arr._elem
        ops = {p.op for p in pend}
        if ops == {"+="}:
            def el(k, old=old, pend=pend):
                acc = old(k)
                for p in pend:
                    v = p.value
                    g = tuple(p.guards) + tuple(i == kd for i, kd in zip(p.idx, k)) + tuple(b.range_cond() for b in p.binders)
                    if not v.const.is_zero():
                        raise Unsupported("accumulation of a constant over a symbolic loop")
                    acc = acc + LF(C0, [Term(tuple(p.binders) + t.binders, g + t.guard, t.coef, t.atom, t.idx, t.conj) for t in v.terms])
                return acc
            arr._elem = el
        elif ops == {"="}:
            def el(k, old=old, pend=pend):
                res = old(k)
                for p in pend:     # later stores win
                    # solve idx == k for the binders (one-point rule); unsolved binders mean a non-injective store
                    probe = Term(p.binders, tuple(p.guards) + tuple(b.range_cond() for b in p.binders), C1, "@probe", p.idx)
                    solved = eliminate_binders(probe, extra_eq=list(zip(p.idx, k)))
                    if solved is None:
                        _injectivity_obligation(p)
                        raise Unsupported("store inside a loop whose index does not determine the loop variables (not injective)")
                    # substitute the same solution into the value: rebuild by eliminating on each value term
                    hit = z3.And(*(list(solved.guard) + [i == kd for i, kd in zip(solved.idx, k)]))
                    v = p.value
                    terms = []
                    for t in v.terms:
                        tt = Term(tuple(p.binders) + t.binders, tuple(p.guards) + tuple(b.range_cond() for b in p.binders) + t.guard + tuple(i == kd for i, kd in zip(p.idx, k)),
                                  t.coef, t.atom, t.idx, t.conj)
                        terms.append(tt)
                    cv = v.const
                    if not cv.is_zero():
                        # constant stores (e.g. mask[i] = 1): value may depend on binders only through the solved point
                        raise Unsupported("constant store inside a symbolic loop")
                    res = LF(C0, terms) + res.guarded(z3.Not(hit))
                return res
            arr._elem = el
        else:
            raise Unsupported("mixed = and += stores to one array inside a loop nest")
    c.__dict__["loop_arrays"] = []


SArr._loopstore = _loopstore


# ----------------------------------------------------------------------------- nb.vectorize: elementwise map of a scalar kernel
class _NB:
    """stands for numba in modules whose @nb.vectorize kernels are verified: the scalar Python body is explored on a
    generic element (all its internal paths), merged into one if-then-else expression, and mapped over the array."""

    @staticmethod
    def vectorize(*a, **k):
        if len(a) == 1 and callable(a[0]) and not k:
            return _vectorized(a[0])
        return lambda f: _vectorized(f)

    @staticmethod
    def jit(*a, **k):
        if len(a) == 1 and callable(a[0]) and not k:
            return a[0]
        return lambda f: f


NB = _NB()


def _vectorized(f):
    def wrapper(*args):
        arrs = [x for x in args if isinstance(x, SArr)]
        if not arrs:
            return f(*args)
        shape = arrs[0].shape
        for x in arrs[1:]:
            shape = broadcast_shapes(shape, x.shape)
        n = len(shape)
        g = [z3.Int(core.fresh_name("g")) for _ in range(n)]
        outer = cur()
        snaps = [(x._snapshot(), _bmap(x.shape, n, shape)) if isinstance(x, SArr) else None for x in args]

        def scalar_args():
            out = []
            for x, sn in zip(args, snaps):
                if sn is None:
                    out.append(x)
                else:
                    v = sn[0](sn[1](tuple(g))).value()
                    out.append(Sym(v.re) if v.is_real() else v)
            return out
        # explore the scalar body on the generic element; inner paths do not fork the caller
        seed = outer.hyps()

        def run():
            for h in seed:
                core.assume(h)
            r = f(*scalar_args())
            return C.of(r) if not isinstance(r, C) else r
        inner = core.explore(run, max_paths=64)
        val_re, val_im = None, None
        templates = []
        consts = []
        for pr in inner:
            if pr.kind != "return":
                raise Unsupported("vectorized kernel raises on some path: %r" % (pr.value,))
            cond = z3.And(*pr.pc[len(seed):]) if pr.pc[len(seed):] else z3.BoolVal(True)
            val_re = pr.value.re if val_re is None else z3.If(cond, pr.value.re, val_re)
            val_im = pr.value.im if val_im is None else z3.If(cond, pr.value.im, val_im)
            for d in pr.defs:
                templates.append(z3.Implies(cond, d))
            for sname, hy, goal in pr.side:
                outer.side.append(("kernel:" + sname, outer.hyps(), z3.Implies(z3.And(*pr.pc[len(seed):]) if pr.pc[len(seed):] else z3.BoolVal(True), goal)))
        # skolemise the witnesses (fresh constants created inside the kernel) as functions of the element index
        names = set()

        def collect(e):
            if z3.is_const(e) and e.decl().kind() == z3.Z3_OP_UNINTERPRETED and "!" in str(e) and not any(e.eq(x) for x in g):
                names.add(e)
            for ch in e.children():
                collect(ch)
        for t in templates:
            collect(t)
        outer_consts = set()
        for h in seed:
            def oc(e):
                if z3.is_const(e) and e.decl().kind() == z3.Z3_OP_UNINTERPRETED:
                    outer_consts.add(e.get_id())
                for ch in e.children():
                    oc(ch)
            oc(h)
        sk = []
        for w in names:
            if w.get_id() in outer_consts:
                continue
            fn = z3.Function("sk<%s>" % w, *([z3.IntSort()] * n + [w.sort()]))
            sk.append((w, fn(*g)))
        if sk:
            val_re, val_im = z3.substitute(val_re, *sk), z3.substitute(val_im, *sk)
            templates = [z3.substitute(t, *sk) for t in templates]

        def el(k):
            sub = list(zip(g, [_lift(x) for x in k]))
            for t in templates:
                define(z3.substitute(t, *sub))
            return LF(C(z3.substitute(val_re, *sub), z3.substitute(val_im, *sub)))
        return SArr(shape, el, arrs[-1].dtype)
    wrapper.__wrapped__ = f
    return wrapper


# ----------------------------------------------------------------------------- numpy.fft contracts
def twiddle(n, m, inverse=False):
    """exp(-+ 2 pi i m / n) as an uninterpreted function of (n, m mod n): periodicity in m is built in"""
    q, r = core._divmod(S(m), S(n))
    args = (_lift(n), r)
    fre = z3.Function("W.re", z3.IntSort(), z3.IntSort(), z3.RealSort())(*args)
    fim = z3.Function("W.im", z3.IntSort(), z3.IntSort(), z3.RealSort())(*args)
    return C(fre, -fim if inverse else fim)


def _fft_axes(a, axes):
    if axes is None:
        return list(range(a.ndim))
    out = []
    for x in axes:
        x = int(x)
        if x < -a.ndim or x >= a.ndim:
            raise SValueError("axis out of bounds")
        out.append(x % a.ndim)
    return out


def _dft(a, s=None, axes=None, norm=None, inverse=False):
    if s is not None:
        raise Unsupported("fftn(s=...) (uncentred transform with an output shape)")
    ax = _fft_axes(a, axes)
    if len(set(ax)) != len(ax):
        raise Unsupported("repeated fft axes")
    snap = a._snapshot()
    shape = a.shape
    if norm == "ortho":
        scale = 1
        for d in ax:
            scale = scale / core.sym_sqrt(S(shape[d]))
    elif norm is None or norm == "backward":
        scale = 1
        if inverse:
            for d in ax:
                scale = scale / S(shape[d])
    else:
        raise Unsupported("fft norm %r" % (norm,))
    sc = C.of(scale)

    def el(k):
        c = cur()
        idx = list(k)
        binders = []
        w = sc
        saved = list(c.binders)
        try:
            for d in ax:
                j = fresh_int("j")
                b = Binder(j, 0, shape[d])
                binders.append(b)
                c.binders.append(b)          # the twiddle's quotient/remainder become functionally defined bound variables
                idx[d] = j
                w = w * twiddle(shape[d], Sym(j) * Sym(k[d]), inverse)
            v = snap(tuple(idx))
            defs = [x for x in c.binders if x not in saved and x not in binders]
            allb = []
            for b in binders:
                allb.append(b)
            allb += defs
        finally:
            c.binders[:] = saved
        if not v.const.is_zero():
            raise Unsupported("fft of a non-homogeneous value")
        return LF(C0, [Term(tuple(allb) + t.binders, tuple(x.range_cond() for x in allb) + t.guard, t.coef * w, t.atom, t.idx, t.conj)
                       for t in v.terms])
    # numpy >= 2.0 (pocketfft): a complex input keeps its width; a real input of width b gives complex 2b
    # (assumed contract of the installed numpy, exercised by the native C05 probe)
    odt = a.dtype if a.dtype.kind == "c" else DType("c", None if a.dtype.bits is None else 2 * a.dtype.bits)
    return SArr(shape, el, odt)


def _shift(a, axes, sign):
    ax = _fft_axes(a, axes) if axes is not None else list(range(a.ndim))
    snap = a._snapshot()
    shape = a.shape

    def el(k):
        kk = list(k)
        for d in ax:
            kk[d] = _lift(core.sym_mod(Sym(k[d]) + sign * (S(shape[d]) // 2), shape[d]))
        return snap(tuple(kk))
    return SArr(shape, el, a.dtype)


class _FFT(_NS):
    _name = "np.fft"

    @staticmethod
    def fftn(a, s=None, axes=None, norm=None):
        return _dft(a, s, axes, norm, False)

    @staticmethod
    def ifftn(a, s=None, axes=None, norm=None):
        return _dft(a, s, axes, norm, True)

    @staticmethod
    def fftshift(a, axes=None):
        return _shift(a, axes, -1)       # out[k] = in[(k - n//2) mod n]

    @staticmethod
    def ifftshift(a, axes=None):
        return _shift(a, axes, +1)       # out[k] = in[(k + n//2) mod n]


_Numpy.fft = _FFT()


# ----------------------------------------------------------------------------- direct comparison of two comprehensions
def reduce_term(term):
    """apply the one-point rule where it applies (using the equalities inside the guard) and return an equivalent
    Term whose remaining bound variables are re-expressed after substitution"""
    sub = []
    ap = lambda e: z3.substitute(e, *sub) if sub else e
    eqs = []
    for g in term.guard:
        g = z3.simplify(g)
        for gg in (g.children() if z3.is_and(g) else [g]):
            if z3.is_eq(gg) and gg.arg(0).sort() == z3.IntSort():
                eqs.append((gg.arg(0), gg.arg(1)))
    new_binders, remaining = [], []
    blist = list(term.binders)
    for pos, bnd in enumerate(blist):
        later = []
        for bb in blist[pos + 1:]:
            later += bvars(bb)
        if bnd.kind == "fdef":
            c2 = ap(bnd.cons)
            if any(_contains(c2, v) for v in remaining):
                new_binders.append(core.FnDef(bnd.v, c2))
                remaining.append(bnd.v)
            else:
                nv = z3.Const(core.fresh_name(str(bnd.v).split("!")[0]), bnd.v.sort())
                core.define(z3.substitute(c2, (bnd.v, nv)))
                sub.append((bnd.v, nv))
            continue
        if bnd.kind == "def":
            a2, d2 = ap(bnd.a), ap(bnd.d)
            if any(_contains(a2, v) or _contains(d2, v) for v in remaining):
                new_binders.append(core.DefBinder(bnd.q, bnd.r, a2, d2, ap(bnd.cons)))
                remaining += [bnd.q, bnd.r]
            else:
                q2, r2 = core._divmod_global(a2, d2)
                sub += [(bnd.q, q2), (bnd.r, r2)]
            continue
        sol = None
        for l, r in eqs:
            cand = _solve_for(ap(l), ap(r), bnd.v)
            if cand is not None and not any(_contains(cand, v) for v in remaining + later):
                sol = cand
                break
        if sol is None:
            nb_ = Binder(bnd.v, Sym(ap(_lift(bnd.lo))) if bnd.lo is not None else None, Sym(ap(_lift(bnd.hi))) if bnd.hi is not None else None)
            new_binders.append(nb_)
            remaining.append(bnd.v)
        else:
            sub.append((bnd.v, sol))
    guard = []
    for g in term.guard:
        g2 = z3.simplify(ap(g))
        if not z3.is_true(g2):
            guard.append(g2)
    # range conditions of eliminated binders are already part of the guard (added when the term was built)
    return Term(tuple(new_binders), tuple(guard), C(ap(term.coef.re), ap(term.coef.im)), term.atom, [z3.simplify(ap(i)) for i in term.idx], term.conj)


def comprehension_goals(a, b):
    """sufficient conditions for two linear forms (weighted edge comprehensions) to be equal: terms paired in order,
    range variables paired in creation order (renamed), functionally defined variables (div/mod, ceil, floor) kept free
    with their definitions as hypotheses; then guards equivalent, and under the guard equal atom index and weight.
    returns list of (suffix, hyps, goal)"""
    a, b = LF.of(a), LF.of(b)
    out = [("const", [], z3.And(a.const.re == b.const.re, a.const.im == b.const.im))]
    ta = [reduce_term(t) for t in a.terms]
    tb = [reduce_term(t) for t in b.terms]
    if len(ta) != len(tb):
        return out + [("number-of-summations", [], z3.BoolVal(False))]
    for n, (x, y) in enumerate(zip(ta, tb)):
        if x.atom != y.atom or x.conj != y.conj or len(x.idx) != len(y.idx):
            out.append(("term%d:same-input-array" % n, [], z3.BoolVal(False)))
            continue
        rx = [bb for bb in x.binders if bb.kind == "range"]
        ry = [bb for bb in y.binders if bb.kind == "range"]
        if len(rx) != len(ry):
            out.append(("term%d:number-of-summation-variables" % n, [], z3.BoolVal(False)))
            continue
        ren = [(by.v, bx.v) for bx, by in zip(rx, ry)]
        rn = lambda e: z3.substitute(e, *ren) if ren else e
        # functionally defined variables with the same definition on both sides denote the same value: identify them
        for by in y.binders:
            if by.kind == "def":
                a2, d2 = z3.simplify(rn(by.a)), z3.simplify(rn(by.d))
                for bx in x.binders:
                    if bx.kind == "def" and z3.simplify(bx.a).eq(a2) and z3.simplify(bx.d).eq(d2):
                        ren += [(by.q, bx.q), (by.r, bx.r)]
                        break
            elif by.kind == "fdef":
                for bx in x.binders:
                    if bx.kind == "fdef" and bx.v.sort() == by.v.sort():
                        c2 = z3.simplify(z3.substitute(rn(by.cons), (by.v, bx.v)))
                        if c2.eq(z3.simplify(bx.cons)):
                            ren.append((by.v, bx.v))
                            break
        defs = [bb.range_cond() for bb in x.binders if bb.kind != "range"] + [rn(bb.range_cond()) for bb in y.binders if bb.kind != "range"]
        dset_x = [bb.range_cond() for bb in x.binders if bb.kind != "range"]
        dset_y = [bb.range_cond() for bb in y.binders if bb.kind != "range"]

        def core_guard(t, dset, ren_):
            gs = []
            for g in t.guard:
                if any(g.eq(z3.simplify(d)) or g.eq(d) for d in dset):
                    continue
                gs.append(ren_(g))
            return z3.And(*gs) if gs else z3.BoolVal(True)
        gx = core_guard(x, dset_x, lambda e: e)
        gy = core_guard(y, dset_y, rn)
        out.append(("term%d:summation-ranges-equivalent" % n, defs, gx == gy))
        out.append(("term%d:same-input-element" % n, defs + [gx], z3.And(*[i == rn(j) for i, j in zip(x.idx, y.idx)]) if x.idx else z3.BoolVal(True)))
        out.append(("term%d:same-weight" % n, defs + [gx], z3.And(x.coef.re == rn(y.coef.re), x.coef.im == rn(y.coef.im))))
    return out
