"""Check driver: generate obligations from /repo's current source, discharge them on a process pool,
replay counter-models natively, write evidence, print VIOLATION / KNOWN-FINDING lines.

exit 0 all discharged | 1 violation | 2 undecided | 3 engine error
"""
import importlib
import json
import multiprocessing as mp
import os
import subprocess
import sys
import time
import traceback

ROOT = os.path.dirname(os.path.dirname(os.path.abspath(__file__)))
NATIVE_PY = os.environ.get("PYVC_NATIVE_PY", "/venv/bin/python")
REPO = os.environ.get("PYVC_REPO", "/repo")


# ----------------------------------------------------------------------------- jobs
class Job:
    """a unit of generation+discharge work, run in a worker: module.function(**kw) -> list of result dicts"""

    def __init__(self, module, func, **kw):
        self.module, self.func, self.kw = module, func, kw

    def label(self):
        return "%s.%s(%s)" % (self.module.split(".")[-1], self.func, ",".join("%s=%s" % kv for kv in sorted(self.kw.items())))


def _run_job(args):
    job, timeout_ms = args
    t0 = time.time()
    try:
        mod = importlib.import_module(job.module)
        fn = getattr(mod, job.func)
        res = fn(timeout_ms=timeout_ms, **job.kw)
        return dict(job=job.label(), results=res, error=None, wall=time.time() - t0)
    except (KeyboardInterrupt, SystemExit):
        raise
    except BaseException as e:
        return dict(job=job.label(), results=[], error="%s: %s\n%s" % (type(e).__name__, e, traceback.format_exc()[-1500:]),
                    wall=time.time() - t0)


def run_jobs(jobs, timeout_ms, procs=None):
    procs = procs or min(16, os.cpu_count() or 4)
    if not jobs:
        return []
    ctx = mp.get_context("fork")
    with ctx.Pool(min(procs, len(jobs))) as pool:
        return pool.map(_run_job, [(j, timeout_ms) for j in jobs], chunksize=1)


# ----------------------------------------------------------------------------- helpers for contract modules
def check_obligations(obs, timeout_ms, vac_hyps=None):
    """discharge a list of core.Obligation; returns list of plain dicts"""
    from . import core
    out = []
    cross = os.environ.get("VERIF_TIER", "") == "thorough" or os.environ.get("PYVC_CVC5_CROSSCHECK")
    n_cross = 0
    for i, ob in enumerate(obs):
        r = core.discharge(ob, timeout_ms)
        d = dict(name=ob.name, status=r["status"], backend=r["backend"], time_s=round(r["time_s"], 4),
                 model=r.get("model"), meta=ob.meta)
        if r.get("reason"):
            d["reason"] = r["reason"]
        if cross and r["status"] == "unsat" and i % 7 == 0 and n_cross < 40:
            # thorough tier: a second solver re-checks a sample of the discharged obligations.  `sat` from cvc5 on an
            # obligation z3 discharged is a disagreement of the trusted back ends: reported as an engine error, never ignored.
            n_cross += 1
            try:
                r2 = core._cvc5(ob.smt2(), 4000)
            except Exception:
                r2 = None
            d["cvc5_crosscheck"] = (r2 or {}).get("status", "unknown")
            if r2 is not None and r2.get("status") == "sat":
                d["status"] = "engine-error"
                d["meta"] = dict(ob.meta or {}, error="solver disagreement: %s says unsat, cvc5 says sat" % r["backend"])
        out.append(d)
    return out


def cover(name, hyps, timeout_ms=5000):
    """vacuity guard: hypotheses of a path must be satisfiable"""
    import z3
    s = z3.Solver()
    s.set("timeout", timeout_ms)
    s.add(*hyps)
    r = s.check()
    st = "cover-sat" if r == z3.sat else ("cover-unsat" if r == z3.unsat else "cover-unknown")
    return dict(name=name + "/cover", status=st,
                backend="z3", time_s=0.0, model=None, meta={"cover": True})


_NATIVE_MEMO = {}


def native(script, request, timeout=600):
    """run a native helper under the repo's interpreter; request/response are JSON (memoised per run)"""
    key = (script, json.dumps(request, sort_keys=True, default=str))
    if key not in _NATIVE_MEMO:
        _NATIVE_MEMO[key] = _native(script, request, timeout)
    return _NATIVE_MEMO[key]


def _native(script, request, timeout=600):
    env = dict(os.environ)
    env["PYTHONPATH"] = REPO + os.pathsep + os.path.join(ROOT, "native")
    env.setdefault("NUMBA_DISABLE_JIT", "0")
    p = subprocess.run([NATIVE_PY, os.path.join(ROOT, "native", script)], input=json.dumps(request), text=True,
                       capture_output=True, timeout=timeout, env=env, cwd=ROOT)
    if p.returncode != 0:
        return dict(error="native helper failed (rc=%d): %s" % (p.returncode, p.stderr[-2000:]))
    try:
        return json.loads(p.stdout.strip().splitlines()[-1])
    except Exception as e:
        return dict(error="native helper gave no JSON: %s / %s" % (p.stdout[-500:], p.stderr[-500:]))


def load_known():
    p = os.path.join(ROOT, "known_findings.json")
    if not os.path.exists(p):
        return []
    with open(p) as f:
        return json.load(f).get("findings", [])


# ----------------------------------------------------------------------------- main driver
def main(argv=None):
    import argparse
    ap = argparse.ArgumentParser()
    ap.add_argument("prop")
    ap.add_argument("--tier", default=os.environ.get("VERIF_TIER", "quick"), choices=["quick", "thorough"])
    ap.add_argument("--replay", default=None)
    ap.add_argument("--only", default=None, help="substring filter on job labels (debugging)")
    a = ap.parse_args(argv)
    seed = int(os.environ.get("VERIF_SEED", "0") or 0)
    pid = a.prop
    sys.path.insert(0, ROOT)
    t0 = time.time()
    try:
        mod = importlib.import_module("contracts." + pid)
    except Exception as e:
        print("ENGINE-ERROR cannot load contracts for %s: %s" % (pid, e))
        traceback.print_exc()
        return 3
    if a.replay:
        return do_replay(mod, pid, a.replay)
    tier = a.tier
    os.environ["VERIF_TIER"] = tier          # worker processes read the tier (cvc5 cross-check in the thorough tier)
    timeout_ms = (10000 if tier == "quick" else 60000)
    timeout_ms = getattr(mod, "TIMEOUT_MS", {}).get(tier, timeout_ms)
    engine_errors, results = [], []
    try:
        jobs = mod.jobs(tier)
        if a.only:
            jobs = [j for j in jobs if a.only in j.label()]
    except Exception as e:
        print("ENGINE-ERROR job generation failed: %s" % e)
        traceback.print_exc()
        return 3
    # canary: a deliberately false obligation must be refuted by the same machinery
    jobs = list(jobs) + [Job("pyvc.run", "canary_job")]
    outs = run_jobs(jobs, timeout_ms)
    if os.environ.get("PYVC_JOB_TIMES"):
        for o in sorted(outs, key=lambda o: -o.get("wall", 0))[:12]:
            print("JOB-TIME %.1fs %s" % (o.get("wall", 0), o["job"][:160]))
    canary_ok = False
    for o in outs:
        if o["error"]:
            engine_errors.append((o["job"], o["error"]))
        if o["results"] is None:
            engine_errors.append((o["job"], "job returned no result list"))
            continue
        for r in o["results"]:
            r["job"] = o["job"]
            if r["name"] == "canary/false-obligation":
                canary_ok = r["status"] == "sat"
            else:
                results.append(r)
    if not canary_ok:
        engine_errors.append(("canary", "the deliberately false obligation was not refuted"))

    # bounded native probes (conformance of contracts against the real code; never counted as proved)
    bounded = []
    probe_violations = []
    if hasattr(mod, "probes"):
        try:
            for pr in mod.probes(tier, seed):
                bounded.append(pr)
                if pr.get("error"):
                    engine_errors.append(("probe:" + pr.get("name", "?"), pr["error"]))
                for f in pr.get("failures", []):
                    probe_violations.append(dict(name="bounded/" + pr["name"], failure=f))
        except Exception as e:
            engine_errors.append(("probes", "%s\n%s" % (e, traceback.format_exc()[-1500:])))

    known = [k for k in load_known() if k.get("property") == pid]
    for r in results:
        if r["status"] == "engine-error":
            engine_errors.append((r["name"], r["meta"].get("error", "engine limit")))
    results = [r for r in results if r["status"] != "engine-error"]
    obligations = [r for r in results if not r["meta"].get("cover")]
    covers = [r for r in results if r["meta"].get("cover")]
    discharged = [r for r in obligations if r["status"] == "unsat"]
    refuted = [r for r in obligations if r["status"] == "sat"]
    unknown = [r for r in obligations if r["status"] not in ("unsat", "sat")]
    vac = [r for r in covers if r["status"] == "cover-unsat"]
    for v in vac:
        engine_errors.append((v["name"], "vacuous: path hypotheses are unsatisfiable"))
    if not obligations and not a.only:
        engine_errors.append(("vacuity", "no obligation was generated"))

    import shutil
    # replay files live under /verif/replays/<id> (cleared on every run); a scratch run may redirect them
    RDIR = os.environ.get("PYVC_REPLAY_DIR", "replays")
    shutil.rmtree(os.path.join(ROOT, RDIR, pid), ignore_errors=True)
    os.makedirs(os.path.join(ROOT, RDIR, pid), exist_ok=True)
    violations = []
    known_lines = []
    # --- refuted obligations -> replay natively
    for r in refuted:
        rep = None
        if hasattr(mod, "replay_request"):
            try:
                rep = mod.replay_request(r)
            except Exception as e:
                rep = None
                r["replay_error"] = str(e)
        native_res = None
        if rep is not None:
            native_res = native(rep.get("script", "replay.py"), rep)
        kf = match_known(known, r["name"], rep, native_res)
        path = os.path.join(RDIR, pid, safe(r["name"]) + ".json")
        rec = dict(property=pid, obligation=r["name"], job=r["job"], backend=r["backend"], solver_model=r["model"],
                   meta=jsonable(r["meta"]), replay_request=rep, native_result=native_res)
        if kf is not None:
            known_lines.append("KNOWN-FINDING: property=%s %s" % (pid, kf.get("what", r["name"])))
            kf["_seen"] = True
            r["known_finding"] = True
            continue
        with open(os.path.join(ROOT, path), "w") as f:
            json.dump(rec, f, indent=1, default=str)
        reproduced = bool(native_res and native_res.get("reproduced"))
        if not reproduced and "summation-structure" in r["name"]:
            # the structural matcher of two summations is sufficient, not necessary: a mismatch that does not
            # reproduce on the real code is an engine limit (undecided), not a refutation
            r["status"] = "unknown"
            r["reason"] = "summation structures differ and the concrete replay does not fail"
            unknown.append(r)
            continue
        violations.append(dict(obligation=r["name"], replay=path, reproduced=reproduced))
    for pv in probe_violations:
        rep = pv["failure"].get("replay_request")
        kf = match_known(known, pv["name"], rep, dict(reproduced=True))
        if kf is not None:
            if not kf.get("_seen"):
                known_lines.append("KNOWN-FINDING: property=%s %s" % (pid, kf.get("what", pv["name"])))
                kf["_seen"] = True
            continue
        path = os.path.join(RDIR, pid, safe(pv["name"] + "-" + str(len(violations))) + ".json")
        with open(os.path.join(ROOT, path), "w") as f:
            json.dump(dict(property=pid, obligation=pv["name"], failure=pv["failure"], replay_request=rep,
                           note="bounded run-time contract check failed on the real code with this concrete input"),
                      f, indent=1, default=str)
        violations.append(dict(obligation=pv["name"], replay=path, reproduced=True))

    # known findings must still be observed to be printed; entries that no longer fail are silently stale
    for line in sorted(set(known_lines)):
        print(line)

    status = 0
    if violations:
        status = 1
    elif engine_errors:
        status = 3
    elif unknown:
        status = 2

    for v in violations:
        print("VIOLATION property=%s replay=%s%s" % (pid, v["replay"], "" if v["reproduced"] else " no-failing-input-found"))
        print("  failed obligation: %s" % v["obligation"])
    for n, e in engine_errors:
        print("ENGINE-ERROR %s: %s" % (n, e.strip().splitlines()[0] if e.strip() else e))
        if os.environ.get("PYVC_DEBUG"):
            print(e)
    for u in unknown:
        print("UNDECIDED %s (%s)" % (u["name"], u.get("reason", u["status"])))

    known_obs = [r["name"] for r in refuted if r.get("known_finding")]
    obligations = [r for r in obligations if not r.get("known_finding")]
    refuted = [r for r in refuted if not r.get("known_finding")]
    write_evidence(mod, pid, tier, seed, obligations, discharged, refuted, unknown, covers, bounded, known_lines,
                   violations, engine_errors, time.time() - t0, canary_ok, known_obs)
    print("%s tier=%s obligations=%d discharged=%d refuted=%d undecided=%d bounded_cases=%d wall=%.1fs exit=%d" % (
        pid, tier, len(obligations), len(discharged), len(refuted), len(unknown),
        sum(b.get("cases", 0) for b in bounded), time.time() - t0, status))
    return status


def match_known(known, obname, rep, native_res):
    for k in known:
        if k.get("status") != "known":
            continue
        pat = k.get("obligation", "")
        import fnmatch
        name_ok = bool(pat) and (pat == obname or fnmatch.fnmatchcase(obname, pat))
        if obname.startswith("bounded/"):
            # a bounded run-time failure is identified by its concrete failing call only
            if not k.get("replay_match") or rep is None or not all(subdict_match(k["replay_match"], rep)):
                continue
        else:
            if not name_ok:
                continue
            if k.get("replay_match"):
                # the finding is identified by its specific failing call: every key listed must agree
                if rep is None or not all(subdict_match(k["replay_match"], rep)):
                    continue
        if True:
            if native_res is not None and not native_res.get("reproduced", False):
                continue
            return k
    return None


def subdict_match(pat, val):
    for kk, vv in pat.items():
        cur = val.get(kk) if isinstance(val, dict) else None
        if isinstance(vv, dict):
            yield all(subdict_match(vv, cur if isinstance(cur, dict) else {}))
        else:
            yield cur == vv


def safe(s):
    return "".join(c if c.isalnum() or c in "-_." else "_" for c in s)[:150]


def jsonable(x):
    try:
        json.dumps(x)
        return x
    except Exception:
        return json.loads(json.dumps(x, default=str))


def canary_job(timeout_ms=10000):
    import z3
    from . import core
    x = z3.Int("canary_x")
    ob = core.Obligation("canary/false-obligation", [x >= 0], x * x > x)
    return check_obligations([ob], timeout_ms)


def write_evidence(mod, pid, tier, seed, obligations, discharged, refuted, unknown, covers, bounded, known_lines,
                   violations, engine_errors, wall, canary_ok, known_obs=()):
    import z3
    by_backend = {}
    crosschecked = {}
    for r in discharged:
        by_backend[r["backend"]] = by_backend.get(r["backend"], 0) + 1
        if r.get("cvc5_crosscheck"):
            crosschecked[r["cvc5_crosscheck"]] = crosschecked.get(r["cvc5_crosscheck"], 0) + 1
    samples = []
    for r in (refuted + discharged)[:0] + discharged[:6] + refuted[:3]:
        samples.append(dict(obligation=r["name"], status=r["status"], backend=r["backend"], time_s=r["time_s"],
                            meta=jsonable({k: v for k, v in r["meta"].items() if k in ("function", "instance", "path", "goal", "file", "lines", "sha256")})))
    funcs = mod.functions() if hasattr(mod, "functions") else []
    # mechanical scan: every place where the contract module (and the shared contract helpers it imports) ASSUMES something
    # (preconditions of the contracts) or DEFINES a fact about a symbol (axiom instances of assumed dependency contracts, lemmas
    # that are proved as their own obligations): listed so that nothing is assumed silently
    assume_sites = []
    try:
        import inspect, re as _re
        files = {inspect.getsourcefile(mod)}
        for nm in ("linops", "specs", "galg", "common"):
            m2 = sys.modules.get("contracts." + nm)
            if m2 is not None and (nm == "common" or getattr(mod, nm, None) is m2 or nm in getattr(mod, "__dict__", {})):
                files.add(inspect.getsourcefile(m2))
        for fpath in sorted(f for f in files if f):
            for ln, line in enumerate(open(fpath), 1):
                if _re.search(r"core\.assume\(|core\.define\(", line):
                    assume_sites.append("%s:%d: %s" % (os.path.relpath(fpath, ROOT), ln, line.strip()[:140]))
    except Exception as e:      # the scan must never break a check
        assume_sites = ["scan failed: %s" % e]
    ev = dict(
        property_id=pid, tier=tier, seed=seed, level="proof",
        coverage=dict(
            obligations=len(obligations), discharged=len(discharged),
            checker_cmd="./check %s --tier %s" % (pid, tier),
            trusted_base=["pyvc engine (/verif/pyvc: symbolic values, path exploration, loop-nest summarisation rule)",
                          "z3 %s" % z3.get_version_string(), "cvc5 1.0.3 (second opinion on z3 unknowns)", "sympy rational normal form (cancel), only for obligations whose back end names it",
                          "CPython semantics of the compiled repo AST", "integers mathematical, floats as reals (no rounding)"]
            + list(getattr(mod, "TRUSTED", [])),
            samples=samples or [dict(note="no obligation generated")],
            refuted=len(refuted), undecided=len(unknown),
            assume_and_define_sites=assume_sites, cvc5_crosscheck_of_discharged_sample=crosschecked, by_backend=by_backend, solver_time_s=round(sum(r["time_s"] for r in obligations), 3),
            functions_under_contract=funcs,
            structural_bounds=getattr(mod, "BOUNDS", {}).get(tier, getattr(mod, "BOUNDS", {})),
            bounded=[{k: v for k, v in b.items() if k != "failures"} | {"failures": len(b.get("failures", []))} for b in bounded],
            not_decided=list(getattr(mod, "NOT_DECIDED", [])),
            vacuity=dict(cover_queries=len(covers), cover_sat=sum(1 for c in covers if c["status"] == "cover-sat"),
                         canary_refuted=canary_ok),
            known_findings=sorted(set(known_lines)),
            known_finding_obligations=list(known_obs),
            engine_errors=[n for n, _ in engine_errors],
            exhaustive=False,
        ),
        assumptions=list(getattr(mod, "ASSUMPTIONS", [])),
        wall_s=round(wall, 2), violations=len(violations))
    evdir = os.environ.get("PYVC_EVIDENCE_DIR") or os.path.join(ROOT, "evidence")
    os.makedirs(evdir, exist_ok=True)
    with open(os.path.join(evdir, pid + ".json"), "w") as f:
        json.dump(ev, f, indent=1, default=str)


def do_replay(mod, pid, path):
    p = path if os.path.isabs(path) else os.path.join(ROOT, path)
    with open(p) as f:
        rec = json.load(f)
    rep = rec.get("replay_request")
    if not rep:
        print("replay file names obligation %s; no concrete input available" % rec.get("obligation"))
        print(json.dumps(rec.get("solver_model"), indent=1)[:2000])
        return 1
    res = native(rep.get("script", "replay.py"), rep)
    print(json.dumps(res, indent=1)[:4000])
    if res.get("reproduced"):
        print("VIOLATION property=%s replay=%s" % (pid, path))
        return 1
    return 0


if __name__ == "__main__":
    sys.exit(main())
