"""Domain G (DESIGN 4.3): abstract vectors of an unspecified real inner-product space (the realification of C^n)
as finite linear combinations, with real z3 coefficients, of atoms  word . base  (a word of abstract linear
operators applied to a base vector).  Inner products expand bilinearly into canonical Gram variables; adjoint
pairs / self-adjoint operators are moved across the inner product when the variable is named.

GVec objects are MUTABLE with numpy's reference semantics for the in-place operators (+=, *=, dst[...] = src),
so aliasing in the real solver code (self.p = z  vs  z.copy()) behaves as under CPython."""
import z3
from . import core
from .core import Sym, S, _lift, Unsupported

R0 = z3.RealVal(0)


def _rr(x):
    if isinstance(x, Sym):
        return core._to_real(x.t)
    if hasattr(x, "_cmp_real"):
        return x._cmp_real().t
    return core._to_real(_lift(x))


class Space:
    """registry of operators and Gram variables for one verification run"""

    def __init__(self):
        self.adj = {}        # op name -> adjoint op name
        self.maps = {}       # op name -> (domain space, range space)
        self.gram = {}
        self.facts = []      # hypotheses about Gram variables (added by helper lemmas)

    def op(self, name, dom=0, rng=0, adjoint=None):
        """declare a linear operator; adjoint=None means self-adjoint"""
        adjoint = adjoint or name
        self.adj[name] = adjoint
        self.adj[adjoint] = name
        self.maps[name] = (dom, rng)
        self.maps[adjoint] = (rng, dom)
        return Op(self, name)

    def base(self, name, space=0):
        return GVec(self, {((), name, space): z3.RealVal(1)})

    def zero(self, space=0):
        return GVec(self, {}, space)

    # --- Gram variables
    def atom_space(self, a):
        sp = a[2]
        for o in reversed(a[0]):
            d, r = self.maps[o]
            if d != sp:
                raise Unsupported("operator %s applied to a vector of the wrong space" % o)
            sp = r
        return sp

    def gvar(self, a1, a2):
        if self.atom_space(a1) != self.atom_space(a2):
            raise Unsupported("inner product of vectors from different spaces")
        # <w1 b1, w2 b2> = <b1, adj(w1)^rev w2 b2>
        w = tuple(self.adj[o] for o in reversed(a1[0])) + a2[0]
        wrev = tuple(self.adj[o] for o in reversed(w))
        k1 = (a1[1], a1[2], w, a2[1], a2[2])
        k2 = (a2[1], a2[2], wrev, a1[1], a1[2])
        k = min(k1, k2)
        if k not in self.gram:
            self.gram[k] = z3.Real("G<%s|%s|%s>" % (k[0], ".".join(k[2]), k[3]))
        return self.gram[k]

    def ip(self, x, y):
        terms = []
        for ax, cx in x.d.items():
            for ay, cy in y.d.items():
                terms.append(cx * cy * self.gvar(ax, ay))
        return Sym(z3.simplify(z3.Sum(terms))) if terms else Sym(R0)


class Op:
    def __init__(self, space, name):
        self.space, self.name = space, name
        d, r = space.maps[name]
        self.ishape = ["n%d" % d]
        self.oshape = ["n%d" % r]

    def __call__(self, v):
        if not isinstance(v, GVec):
            raise Unsupported("operator applied to %r" % type(v))
        return GVec(self.space, {((self.name,) + w, b, sp): c for (w, b, sp), c in v.d.items()})

    def __mul__(self, v):
        if isinstance(v, GVec):
            return self(v)
        return NotImplemented

    apply = __call__

    @property
    def H(self):
        return Op(self.space, self.space.adj[self.name])

    @property
    def N(self):
        raise Unsupported("normal operator of an abstract operator")


class GVec:
    __array_priority__ = 1000

    def __init__(self, space, d, sp=None):
        self.space = space
        self.d = dict(d)
        self.dtype = "gvec"
        self._sp = sp

    # --- numpy look-alikes
    @property
    def shape(self):
        return ("n%d" % self.vspace(),)

    def vspace(self):
        for a in self.d:
            return self.space.atom_space(a)
        return self._sp if self._sp is not None else 0

    def copy(self):
        return GVec(self.space, self.d, self._sp)

    def _norm(self):
        self.d = {k: z3.simplify(v) for k, v in self.d.items()}
        self.d = {k: v for k, v in self.d.items() if not (z3.is_rational_value(v) and v.numerator_as_long() == 0)}

    def _lin(self, o, co):
        if isinstance(o, GVec):
            d = dict(self.d)
            for k, v in o.d.items():
                d[k] = (d[k] + co * v) if k in d else co * v
            r = GVec(self.space, d, self._sp)
            r._norm()
            return r
        if isinstance(o, (int, float)) and o == 0:
            return self.copy()
        return NotImplemented

    def __add__(self, o):
        return self._lin(o, z3.RealVal(1))

    __radd__ = __add__

    def __sub__(self, o):
        return self._lin(o, z3.RealVal(-1))

    def __rsub__(self, o):
        r = (-self)
        return r._lin(o, z3.RealVal(1)) if isinstance(o, GVec) else (r if (isinstance(o, (int, float)) and o == 0) else NotImplemented)

    def __neg__(self):
        return self * -1

    def __mul__(self, c):
        if isinstance(c, GVec):
            raise Unsupported("elementwise product of two abstract vectors")
        try:
            cc = _rr(c)
        except Unsupported:
            return NotImplemented
        r = GVec(self.space, {k: cc * v for k, v in self.d.items()}, self._sp)
        r._norm()
        return r

    __rmul__ = __mul__

    def __truediv__(self, c):
        if isinstance(c, GVec):
            raise Unsupported("elementwise quotient of two abstract vectors")
        inv = (1 / S(c)) if not isinstance(c, (int, float)) else 1.0 / c
        return self * inv

    # in-place: mutate this object (numpy reference semantics)
    def _assign(self, other):
        self.d = dict(other.d)
        return self

    def __iadd__(self, o):
        r = self + o
        if r is NotImplemented:
            raise Unsupported("in-place add of %r" % type(o))
        return self._assign(r)

    def __isub__(self, o):
        return self._assign(self - o)

    def __imul__(self, c):
        return self._assign(self * c)

    def __itruediv__(self, c):
        return self._assign(self / c)

    def __setitem__(self, idx, value):
        if idx is Ellipsis or idx == slice(None):
            if not isinstance(value, GVec):
                raise Unsupported("store of %r into an abstract vector" % type(value))
            self._assign(value)
        else:
            raise Unsupported("partial store into an abstract vector")

    def same_vector(self, o):
        """z3 Bool: coefficientwise equality"""
        keys = set(self.d) | set(o.d)
        return z3.And(*[self.d.get(k, R0) == o.d.get(k, R0) for k in keys]) if keys else z3.BoolVal(True)

    def __repr__(self):
        return "GVec(%s)" % ", ".join("%s.%s:%s" % (".".join(w), b, c) for (w, b, sp), c in self.d.items())

    def __bool__(self):
        raise Unsupported("truth value of a vector")


class _GLinalg:
    @staticmethod
    def norm(v):
        if isinstance(v, GVec):
            nn = v.space.ip(v, v)
            core.define(nn.t >= 0)           # axiom of inner-product spaces: <v,v> >= 0
            return core.sym_sqrt(nn)
        raise Unsupported("norm of %r" % type(v))


class _GNP:
    """the `xp` seen by solver code running on abstract vectors"""
    linalg = _GLinalg()
    inf = float("inf")
    ndarray = GVec

    @staticmethod
    def vdot(a, b):
        return a.space.ip(a, b)

    @staticmethod
    def real(x):
        return x

    @staticmethod
    def isscalar(x):
        return isinstance(x, (int, float, Sym))

    @staticmethod
    def abs(x):
        if isinstance(x, GVec):
            raise Unsupported("elementwise abs of an abstract vector")
        return abs(x)

    @staticmethod
    def amin(x):
        if isinstance(x, GVec):
            raise Unsupported("amin of an abstract vector")
        return x          # scalar step size

    @staticmethod
    def sqrt(x):
        return core.sym_sqrt(x)

    def __getattr__(self, k):
        if k.startswith("__"):
            raise AttributeError(k)
        raise Unsupported("xp.%s is not modelled on abstract vectors" % k)


GNP = _GNP()


class GDevice:
    xp = GNP

    def __enter__(self):
        return self

    def __exit__(self, *a):
        return False


GDEV = GDevice()


class _GBackend:
    cpu_device = GDEV

    @staticmethod
    def get_device(x):
        return GDEV

    @staticmethod
    def get_array_module(x):
        return GNP

    @staticmethod
    def to_device(x, device=None):
        return x

    @staticmethod
    def copyto(dst, src):
        dst[...] = src

    def __getattr__(self, k):
        if k.startswith("__"):
            raise AttributeError(k)
        raise Unsupported("backend.%s is not modelled on abstract vectors" % k)


GBACKEND = _GBackend()
