"""Domain F (DESIGN 4.5): a conservative static effect / alias analysis over the real AST.
For one function: which of its parameters (or arrays reachable from `self`) may be MUTATED - directly (augmented
assignment, subscript store, out=, copyto) or through a view (reshape, ravel, T, transpose, swapaxes, squeeze,
expand_dims, basic indexing, .real/.imag, asarray, to_device, astype(copy=False)) or through a callee whose summary
mutates the corresponding argument.  No SMT is involved; the result is a frame (modifies) clause."""
import ast

VIEW_METHODS = {"reshape", "ravel", "transpose", "swapaxes", "squeeze", "view", "conj_view"}
VIEW_ATTRS = {"T", "real", "imag"}
VIEW_FUNCS = {"reshape", "ravel", "transpose", "swapaxes", "squeeze", "expand_dims", "asarray", "to_device", "moveaxis",
              "atleast_1d", "atleast_2d", "broadcast_to", "asanyarray"}
INPLACE_METHODS = {"sort", "fill", "itemset", "put", "resize", "partition", "byteswap"}
COPYTO = {"copyto"}


class Summary:
    def __init__(self):
        self.mutates = {}      # function qualname -> set of parameter positions/names it may mutate


def _root(expr, alias):
    """the parameter (or 'self.attr') that `expr` may be a view of, or None when the value is fresh"""
    if isinstance(expr, ast.Name):
        return alias.get(expr.id)
    if isinstance(expr, ast.Attribute):
        if isinstance(expr.value, ast.Name) and expr.value.id == "self":
            return "self." + expr.attr
        if expr.attr in VIEW_ATTRS:
            return _root(expr.value, alias)
        return None
    if isinstance(expr, ast.Subscript):
        # basic indexing returns a view; advanced indexing (an index that is itself an array/list) copies:
        # conservative = view
        return _root(expr.value, alias)
    if isinstance(expr, ast.Call):
        f = expr.func
        if isinstance(f, ast.Attribute):
            if f.attr in VIEW_METHODS:
                return _root(f.value, alias)
            if f.attr == "astype":
                for kw in expr.keywords:
                    if kw.arg == "copy" and isinstance(kw.value, ast.Constant) and kw.value.value is False:
                        return _root(f.value, alias)
                return None
            if f.attr in VIEW_FUNCS and expr.args:
                return _root(expr.args[0], alias)
        if isinstance(f, ast.Name) and f.id in VIEW_FUNCS and expr.args:
            return _root(expr.args[0], alias)
        return None
    if isinstance(expr, ast.IfExp):
        return _root(expr.body, alias) or _root(expr.orelse, alias)
    return None


def analyse(fn, callee_mutates=None, self_roots=True):
    """returns list of (root, lineno, how) for every possible mutation of a parameter / self attribute"""
    callee_mutates = callee_mutates or {}
    params = [a.arg for a in fn.args.posonlyargs + fn.args.args + fn.args.kwonlyargs]
    if fn.args.vararg:
        params.append(fn.args.vararg.arg)
    alias = {p: p for p in params if p != "self"}
    hits = []

    def bind(target, value):
        if isinstance(target, ast.Name):
            r = _root(value, alias) if value is not None else None
            if r is None:
                alias.pop(target.id, None)
            else:
                alias[target.id] = r
        elif isinstance(target, (ast.Tuple, ast.List)):
            if isinstance(value, (ast.Tuple, ast.List)) and len(value.elts) == len(target.elts):
                for t, v in zip(target.elts, value.elts):
                    bind(t, v)
            else:
                for t in target.elts:
                    bind(t, None)

    def store_target(t, lineno, how):
        if isinstance(t, ast.Subscript):
            r = _root(t.value, alias)
            if r is not None:
                hits.append((r, lineno, how))
        elif isinstance(t, ast.Attribute) and t.attr in VIEW_ATTRS:
            r = _root(t.value, alias)
            if r is not None:
                hits.append((r, lineno, how))

    def calls(node):
        for c in ast.walk(node):
            if not isinstance(c, ast.Call):
                continue
            f = c.func
            name = f.attr if isinstance(f, ast.Attribute) else (f.id if isinstance(f, ast.Name) else None)
            for kw in c.keywords:
                if kw.arg == "out":
                    r = _root(kw.value, alias)
                    if r is not None:
                        hits.append((r, c.lineno, "out= argument"))
            if name in COPYTO and c.args:
                r = _root(c.args[0], alias)
                if r is not None:
                    hits.append((r, c.lineno, "copyto destination"))
            if isinstance(f, ast.Attribute) and f.attr in INPLACE_METHODS:
                r = _root(f.value, alias)
                if r is not None:
                    hits.append((r, c.lineno, "in-place method .%s()" % f.attr))
            if name in callee_mutates:
                for pos in callee_mutates[name]:
                    if isinstance(pos, int) and pos < len(c.args):
                        r = _root(c.args[pos], alias)
                        if r is not None:
                            hits.append((r, c.lineno, "passed to %s which modifies its argument %d" % (name, pos)))

    def visit(stmts):
        for st in stmts:
            if isinstance(st, ast.Assign):
                calls(st.value)
                for t in st.targets:
                    store_target(t, st.lineno, "subscript store")
                for t in st.targets:
                    bind(t, st.value)
            elif isinstance(st, ast.AugAssign):
                calls(st.value)
                if isinstance(st.target, ast.Name):
                    r = alias.get(st.target.id)
                    if r is not None:
                        hits.append((r, st.lineno, "augmented assignment %s=" % type(st.op).__name__))
                else:
                    store_target(st.target, st.lineno, "augmented subscript store")
            elif isinstance(st, (ast.For, ast.While)):
                if isinstance(st, ast.For):
                    calls(st.iter)
                    bind(st.target, None)
                # two passes: aliases created late in the body reach stores early in the next iteration
                visit(st.body)
                visit(st.body)
                visit(st.orelse)
            elif isinstance(st, ast.If):
                calls(st.test)
                before = dict(alias)
                visit(st.body)
                a1 = dict(alias)
                alias.clear()
                alias.update(before)
                visit(st.orelse)
                for k, v in a1.items():       # may-alias: union of both branches
                    alias.setdefault(k, v)
            elif isinstance(st, ast.With):
                for it in st.items:
                    calls(it.context_expr)
                visit(st.body)
            elif isinstance(st, ast.Try):
                visit(st.body)
                for h in st.handlers:
                    visit(h.body)
                visit(st.orelse)
                visit(st.finalbody)
            elif isinstance(st, (ast.Expr, ast.Return)):
                if st.value is not None:
                    calls(st.value)
            elif isinstance(st, ast.FunctionDef):
                pass
            else:
                calls(st)
    visit(fn.body)
    return hits
